"""C10 — saving a crystal and loading it back: CIF dictionary, SHELX, POSCAR, dispatch."""
from __future__ import annotations

import ast
from fractions import Fraction

from ..core import AnalysisError
from ..poly import P
from ..symex import Ev, find_atoms, call_name, seq_items, obj_init
from ..layout import pieces_of, Spec
from ..tags import angle_unit, space_of
from .generic import string_value, dict_items, axis_of, column_of

CR = "crystal/crystal.py"
SX = "fmt/shelx.py"
VR = "fmt/vasp.py"
VW = "ext/vasp.py"
AU = "crystal/asymmetric_unit.py"


def run(chk):
    repo = chk.repo
    cr = repo.module(CR)
    chk.explanation = ("writers vs readers of crystal structures: CIF dictionary keys and axis/column/unit agreement, SHELX "
                       "section keys, token positions, SFAC index pairing and section order, POSCAR section order against the "
                       "reader's line indices and one permutation for coordinates and element runs, dispatch maps, precision of the "
                       "written coordinate fields.")
    chk.rule("R10.1", "CIF dictionary: keys written are the keys read; a,b,c / alpha,beta,gamma / x,y,z bound to the right accessor, column and unit", 22)
    chk.rule("R10.2", "SHELX: formatter keys = data keys = parser keys; atom line tokens; SFAC index +1/-1; SFAC before atoms; CELL tokens in degrees; identity omitted/seeded", 14)
    chk.rule("R10.3", "POSCAR: writer sections = reader line indices; coordinates and element runs share one argsort; Direct <-> fractional", 9)
    chk.rule("R10.4", "dispatch: every saved extension / file name has a loader of the same format; identical fmt= normalisation", 6)
    chk.rule("R10.5", "precision: coordinates carry >= 8 decimals, CELL parameters are rounded to >= 5 decimals", 6)
    for r, f in (("R10.1", r10_1), ("R10.2", r10_2), ("R10.3", r10_3), ("R10.4", r10_4), ("R10.5", r10_5)):
        if chk.want(r):
            f(chk, repo, cr)
    chk.rule("R10.7", "the readers identify the space group through a lookup that is order-independent and returns the stored number and "
                      "setting choice (= C02 R02.1 lookup by operation list, R02.3 LATT sign)", 4)
    if chk.want("R10.7"):
        from ..inherit import inherit
        inherit(chk, "R10.7", "c02", ["R02.1", "R02.3"])
    chk.rule("R10.8", "the layers the files pass through keep their own contracts: CIF text written by the library parses back to the same data "
                      "(= C15 R15.1-R15.5), and symmetry operations survive their string form (= C11 R11.2 digits, R11.7 string codec)", 20)
    if chk.want("R10.8"):
        from ..inherit import inherit
        inherit(chk, "R10.8", "c15", ["R15.1", "R15.2", "R15.3", "R15.4", "R15.5", "R15.7"])
        inherit(chk, "R10.8", "c11", ["R11.2", "R11.7"])
    chk.rule("R10.6", "memo discipline of class Crystal (= C14 R14.2) and no caching decorator on file readers/writers", 3)
    if chk.want("R10.6"):
        from .c14 import crystal_memo_rule
        from .. import memo as MEMO
        crystal_memo_rule(chk, "R10.6")
        n = 0
        for rel in (CR, SX, VR, VW, "fmt/cif.py", "crystal/space_group.py", "crystal/unit_cell.py", "crystal/asymmetric_unit.py"):
            mod = repo.module(rel)
            for qual, fn, txt in MEMO.decorator_caches(mod):
                n += 1
                chk.ob("R10.6", rel, qual, f"a cached function ({txt}) does not read files or depend on mutable state",
                       not MEMO.reads_external_state(mod, fn), node=fn, fingerprint=f"cache:{qual}")
        chk.ob("R10.6", CR, "I/O modules", f"{n} caching decorators found on the crystal I/O path", True, nontrivial=False)
    chk.rule("R10.10", "the unit-cell atoms written to POSCAR are the distinct sites of the cell: wrap before merge, periodic and distance-based coincidence, aligned per-atom columns, occupancy-conserving merge (= C01 R01.2, R01.3, R01.4)", 4)
    if chk.want("R10.10"):
        from ..inherit import inherit
        inherit(chk, "R10.10", "c01", ["R01.2", "R01.3", "R01.4"])
    chk.rule("R10.11", "writing a file leaves the crystal as it was: the writers (and the functions they hand the crystal to) modify neither the crystal "
                       "nor the cached data its queries return, so a second export equals the first (= C14 R14.3, writer methods)", 3)
    if chk.want("R10.11"):
        from ..inherit import inherit
        writers = {"Crystal.to_poscar_string", "Crystal.to_cif_data", "Crystal.to_cif_string", "Crystal.to_cif_file", "Crystal.to_shelx_string",
                   "Crystal.to_shelx_file", "Crystal.save", "Crystal.to_poscar_file", "poscar_string", "to_res_contents"}
        inherit(chk, "R10.11", "c14", ["R14.3"], functions=writers)
    chk.rule("R10.14", "the CIF that is written describes the crystal as it is now: when the dictionary of the file the crystal was read from is "
                       "reused, every item the reader takes the structure from (cell, operations, atom sites) is refreshed (= C14 R14.5, key clauses)", 8)
    if chk.want("R10.14"):
        from ..inherit import inherit
        inherit(chk, "R10.14", "c14", ["R14.5"], fingerprints=lambda fp: fp.startswith("cif:"))
    chk.assume("numeric equality 'to the written precision' and parsing of arbitrary label strings are not decided")
    chk.assume("the SHELX writer does not carry occupancies (the format clause 'where the format carries them')")
    chk.assume("LATT/SYMM soundness is C02 (R02.3-R02.5); CIF text round trip is C15; symmetry-operation strings are C11 (R11.7)")


def fresh_cif(cr):
    ev = cr.ev("Crystal.to_cif_data")
    for e in ev.events:
        if e.value is None:
            continue
        for a in find_atoms(e.value, lambda a: a[0] == "dict" and len(a[1]) >= 8):
            return {string_value(k): v for k, v in a[1]}, ev
    raise AnalysisError("Crystal.to_cif_data: CIF dictionary literal not found")


def alternatives_order(chk, rule, cr, rev, rq, w):
    """Alternative names: `for k in (A, B): if k in data: use data[k]; break` takes the FIRST name present.  The exported dictionary is the
    retained one updated with the fresh items, so a stale alternative stays in it: the name the writer refreshes must be the one the reader
    tries first (or the stale one wins on reading back)."""
    # alternative names: `for k in (A, B): if k in data: use data[k]; break` takes the FIRST name present.  The exported dictionary is
    # the retained one updated with the fresh items, so a stale alternative stays in it: the name the writer refreshes must be the one the
    # reader tries first (or the stale one wins on reading back)
    import ast as _ast
    fn = getattr(rev, "fn", None) or cr.funcs[rq]
    tuples = {}
    for n in _ast.walk(fn):
        if isinstance(n, _ast.Assign) and len(n.targets) == 1 and isinstance(n.targets[0], _ast.Name) and isinstance(n.value, (_ast.Tuple, _ast.List)) \
                and n.value.elts and all(isinstance(x, _ast.Constant) and isinstance(x.value, str) for x in n.value.elts):
            tuples[n.targets[0].id] = [x.value for x in n.value.elts]
    for n in _ast.walk(fn):
        if not (isinstance(n, _ast.For) and isinstance(n.target, _ast.Name)):
            continue
        if isinstance(n.iter, (_ast.Tuple, _ast.List)) and all(isinstance(x, _ast.Constant) and isinstance(x.value, str) for x in n.iter.elts):
            group = [x.value for x in n.iter.elts]
        elif isinstance(n.iter, _ast.Name) and n.iter.id in tuples:
            group = tuples[n.iter.id]
        else:
            continue
        first = n.body[0] if n.body else None
        takes_first = isinstance(first, _ast.If) and any(isinstance(x, _ast.Break) for x in _ast.walk(first)) and \
            isinstance(first.test, _ast.Compare) and isinstance(first.test.ops[0], _ast.In) and isinstance(first.test.left, _ast.Name) \
            and first.test.left.id == n.target.id
        written = [k for k in group if k in w]
        if takes_first and written and len(group) > 1:
            chk.ob(rule, CR, rq, f"of the alternative names {group} the reader tries first the one the writer refreshes ({written[0]!r}): a stale "
                   "alternative retained in the exported dictionary must not win on reading back", group[0] in w, node=n,
                   fingerprint=f"alternatives:{written[0]}", expected=f"{written[0]!r} first", found=f"tried in the order {group}")
    # the same search written (or folded from a table) as a chain  if A in data: ... elif B in data: ...
    def key_test(t):
        if isinstance(t, _ast.Compare) and len(t.ops) == 1 and isinstance(t.ops[0], _ast.In) and isinstance(t.left, _ast.Constant) \
                and isinstance(t.left.value, str) and isinstance(t.comparators[0], _ast.Name):
            return t.left.value
        return None
    inner = set()
    for n in _ast.walk(fn):
        if isinstance(n, _ast.If) and len(n.orelse) == 1 and isinstance(n.orelse[0], _ast.If):
            inner.add(id(n.orelse[0]))
    for n in _ast.walk(fn):
        if not isinstance(n, _ast.If) or id(n) in inner or key_test(n.test) is None:
            continue
        group, cur = [], n
        while cur is not None and key_test(cur.test) is not None:
            group.append(key_test(cur.test))
            cur = cur.orelse[0] if len(cur.orelse) == 1 and isinstance(cur.orelse[0], _ast.If) else None
        written = [k for k in group if k in w]
        if written and len(group) > 1:
            chk.ob(rule, CR, rq, f"of the alternative names {group} the reader tries first the one the writer refreshes ({written[0]!r}): a stale "
                   "alternative retained in the exported dictionary must not win on reading back", group[0] in w, node=n,
                   fingerprint=f"alternatives:{written[0]}", expected=f"{written[0]!r} first", found=f"tried in the order {group}")


def r10_1(chk, repo, cr):
    w, wev = fresh_cif(cr)
    chk.saw(CR, "Crystal.to_cif_data")
    rq = "Crystal.from_cif_data"
    rev = cr.ev(rq)
    chk.saw(CR, rq)
    data = P.name(rev.param_names[1])
    read = {}
    # keys whose presence the reader tests somewhere ('k' in data): a value read under such a test may travel on in a local
    tested = set()
    for e in rev.events:
        for t in [e.value] + [c for c, _ in e.guards]:
            if t is None:
                continue
            for a in find_atoms(t, lambda a: a[0] == "in" and a[2].key() == data.key()):
                if string_value(a[1]):
                    tested.add(string_value(a[1]))
    for e in rev.events:
        for val in (e.value,):
            if val is None:
                continue
            for a in find_atoms(val, lambda a: a[0] == "sub" and a[1].key() == data.key() and len(a[2]) == 1):
                k = string_value(a[2][0])
                if k:
                    guarded = k in tested or \
                        any(pol and c.as_atom() and c.as_atom()[0] == "in" and string_value(c.as_atom()[1]) == k for c, pol in e.guards)
                    if guarded:
                        read.setdefault(k, "optional")
                    else:
                        read[k] = "required"
            for a in find_atoms(val, lambda a: a[0] == "call" and call_name(a) == ".get" and a[1].as_atom()[1].key() == data.key()):
                k = string_value(a[2][0])
                if k:
                    read.setdefault(k, "optional")
            for a in find_atoms(val, lambda a: a[0] == "in" and a[2].key() == data.key()):
                k = string_value(a[1])
                if k:
                    read.setdefault(k, "optional")
    # symop keys are tried through a tuple
    tried = []
    for e in rev.events:
        if e.kind == "assign" and e.name == "symop_data_names":
            tried = [string_value(x) for x in seq_items(e.value) or []]
    # ... or directly: the names under which a list of operation strings is fetched and handed to from_string_code
    for e in rev.events:
        if e.value is not None and "from_string_code" in e.value.key():
            for a in find_atoms(e.value, lambda a: a[0] == "sub" and a[1].key() == data.key() and len(a[2]) == 1):
                k = string_value(a[2][0])
                if k and k not in tried:
                    tried.append(k)
    for k in tried:
        read.setdefault(k, "optional")
    required = sorted(k for k, v in read.items() if v == "required")
    for k in required:
        chk.ob("R10.1", CR, rq, f"required key '{k}' is written by to_cif_data", k in w, fingerprint=f"required:{k}", found=sorted(w))
    for k in sorted(w):
        if k == "audit_creation_method":
            continue
        va = w[k].as_atom()
        if k.endswith("_id") and va and va[0] == "call" and call_name(va) == "list" and va[2] and call_name(va[2][0].as_atom() or ()) == "range":
            continue            # a running number 1..n next to a list: carries no data of the crystal
        chk.ob("R10.1", CR, "Crystal.to_cif_data", f"written key '{k}' is one the reader looks for", k in read, fingerprint=f"written:{k}",
               found=sorted(read))
    chk.ob("R10.1", CR, rq, "the operations are written under one of the names the reader tries",
           any(k in w for k in tried), found=f"tried {tried}")
    alternatives_order(chk, "R10.1", cr, rev, rq, w)
    # axis agreement
    uc = P.atom(("attr", P.name("self"), "unit_cell"))
    for ax, nm in enumerate("abc"):
        v = w.get(f"cell_length_{nm}")
        chk.ob("R10.1", CR, "Crystal.to_cif_data", f"cell_length_{nm} is unit_cell.{nm}", v is not None and v == P.atom(("attr", uc, nm)),
               fingerprint=f"len:{nm}", found=str(v))
    for nm in ("alpha", "beta", "gamma"):
        v = w.get(f"cell_angle_{nm}")
        chk.ob("R10.1", CR, "Crystal.to_cif_data", f"cell_angle_{nm} is unit_cell.{nm}_deg (degrees)",
               v is not None and (v == P.atom(("attr", uc, nm + "_deg")) or v == P.atom(("call", P.name("degrees"), (P.atom(("attr", uc, nm)),)))),
               fingerprint=f"ang:{nm}", found=str(v))
    pos = P.atom(("attr", P.atom(("attr", P.name("self"), "asymmetric_unit")), "positions"))
    for ax, nm in enumerate("xyz"):
        v = w.get(f"atom_site_fract_{nm}")
        col = column_of(v) if v is not None else None
        chk.ob("R10.1", CR, "Crystal.to_cif_data", f"atom_site_fract_{nm} is column {ax} of the fractional positions",
               col is not None and col[1] == ax and col[2] == "col" and col[0].key() == pos.key(), fingerprint=f"col:{nm}", found=str(v))
    v = w.get("symmetry_equiv_pos_as_xyz")
    chk.ob("R10.1", CR, "Crystal.to_cif_data", "operations are written as their string form, in order",
           v is not None and v.key().startswith("(comp ListComp str(self.symmetry_operations["), found=str(v)[:120])
    v = w.get("atom_site_type_symbol")
    chk.ob("R10.1", CR, "Crystal.to_cif_data", "element symbols and labels come from the asymmetric unit, in site order",
           v is not None and ".symbol" in v.key() and "self.asymmetric_unit.elements" in v.key()
           and w.get("atom_site_label") is not None and w["atom_site_label"].key() == "self.asymmetric_unit.labels", found=str(v)[:120])
    # reader side
    ua = None
    asym = None
    for e in rev.events:
        if e.kind == "assign" and e.name == "unit_cell":
            ua = e.value.as_atom()
        if e.kind == "assign" and e.name == "asym":
            asym = e.value.as_atom()
    chk.need(ua is not None and asym is not None, f"{rq}: unit cell / asymmetric unit construction not found")
    ukw = dict(ua[3]) if len(ua) > 3 and ua[3] else {}
    la_ = ua[2][0] if len(ua[2]) > 0 else ukw.get("lengths")        # positional or by keyword
    aa_ = ua[2][1] if len(ua[2]) > 1 else ukw.get("angles")
    chk.need(la_ is not None and aa_ is not None, f"{rq}: lengths / angles arguments of the unit cell not found")
    lens, angs = seq_items(la_), seq_items(aa_)
    unit = ukw.get("unit")
    chk.ob("R10.1", CR, rq, "the reader takes lengths (a, b, c) and angles (alpha, beta, gamma) in that order and declares degrees",
           lens is not None and [x.key() for x in lens] == [f"{data}['cell_length_{n}']" for n in "abc"] and angs is not None
           and [x.key() for x in angs] == [f"{data}['cell_angle_{n}']" for n in ("alpha", "beta", "gamma")]
           and unit is not None and string_value(unit) == "degrees", found=f"{la_} {aa_} unit={unit}")
    kw = dict(asym[3]) if len(asym) > 3 else {}
    fp = kw.get("positions")
    okp = False
    if fp is not None:
        a = fp.as_atom()
        if a and a[0] == "T":
            it = seq_items(a[1])
            okp = it is not None and [("fract_" + n) in x.key() for n, x in zip("xyz", it)] == [True] * 3 and len(it) == 3
    chk.ob("R10.1", CR, rq, "fractional positions are stacked from the x, y, z columns in that order", okp, found=str(fp)[:200])
    chk.ob("R10.1", CR, rq, "labels and occupancies are read from their own columns",
           kw.get("labels") is not None and "atom_site_label" in kw["labels"].key() and kw.get("occupation") is not None
           and "atom_site_occupancy" in kw["occupation"].key(), found=str({k: str(v)[:50] for k, v in kw.items()}))
    sy = [e for e in rev.events if e.kind == "assign" and e.name == "symops"]
    chk.ob("R10.1", CR, rq, "operations are read with from_string_code and identified through from_symmetry_operations",
           bool(sy) and "from_string_code" in sy[0].value.key() and any("from_symmetry_operations" in e.value.key() for e in rev.events if e.kind in ("assign", "call") and e.value is not None))


def r10_2(chk, repo, cr):
    sx = repo.module(SX)
    wq = "Crystal.to_shelx_string"
    wev = cr.ev(wq)
    chk.saw(CR, wq)
    data = None
    for e in wev.events:
        if e.kind == "assign" and e.name == "shelx_data":
            data = dict_items(e.value)
    chk.need(data, f"{wq}: shelx_data literal not found")
    dkeys = [k for k, _, _ in data]
    d = {k: v for k, _, v in data}
    tv = sx.ev("to_res_contents", opaque={"SHELX_FORMATTERS"})
    chk.saw(SX, "to_res_contents")
    fm = None
    for e in tv.events:
        if e.kind == "assign" and e.name == "SHELX_FORMATTERS":
            fm = dict_items(e.value)
    applied_form = False
    if not fm and tv.returns:
        # the table written out (folded from a module-level table of (key, formatter) rows): "\n".join([F1(data[K1]), F2(data[K2]), ...])
        ra0 = tv.returns[-1].value.as_atom()
        its = seq_items(ra0[2][0]) if ra0 and ra0[0] == "call" and len(ra0[2]) == 1 and tv.returns[-1].value.key().startswith("'\\n'.join(") else None
        if its:
            fm = []
            for it in its:
                ks = {string_value(a[2][0]) for a in find_atoms(it, lambda a: a[0] == "sub" and a[1].key() == tv.param_names[0] and len(a[2]) == 1)}
                chk.need(len(ks) == 1 and None not in ks, f"to_res_contents: section {str(it)[:60]} does not format exactly one entry of the data")
                fm.append((ks.pop(), None, it))
            applied_form = True
    chk.need(fm, "to_res_contents: SHELX_FORMATTERS literal not found")
    fkeys = [k for k, _, _ in fm]
    node = sx.toplevel_assign("SHELX_LINE_KEYS")
    pkeys = [k.value for k in node.keys]
    chk.ob("R10.2", SX, "to_res_contents", "formatter keys and the keys of the crystal's shelx_data are the same set", set(fkeys) == set(dkeys),
           expected=sorted(dkeys), found=sorted(fkeys))
    chk.ob("R10.2", SX, "SHELX_LINE_KEYS", "every section the writer emits (except atom lines) has a parser",
           all(k in pkeys for k in fkeys if k != "ATOM") and all(node.values[pkeys.index(k)] is not None and not (isinstance(node.values[pkeys.index(k)], ast.Constant)) for k in fkeys if k != "ATOM"),
           found=[k for k in fkeys if k != "ATOM" and k not in pkeys])
    chk.ob("R10.2", SX, "to_res_contents", "SFAC is emitted before the atom lines (the reader resolves sfac[idx-1] while reading each atom)",
           "SFAC" in fkeys and "ATOM" in fkeys and fkeys.index("SFAC") < fkeys.index("ATOM") and fkeys.index("LATT") < fkeys.index("SYMM") or
           ("SFAC" in fkeys and "ATOM" in fkeys and fkeys.index("SFAC") < fkeys.index("ATOM")), found=fkeys)
    okloop = any(l.kind == "iter" and l.iter is not None and "SHELX_FORMATTERS" in l.iter.key() for l in tv.all_loops)
    app = [e for e in tv.events if e.kind == "call" and e.target is not None and e.target.key().endswith(".append")]

    def applied(term):
        """FORMATTERS[k](data[k]) with one key k, or formatter(data[key]) for (key, formatter) an item of FORMATTERS."""
        aa = term.as_atom()
        if not (aa and aa[0] == "call" and len(aa[2]) == 1 and not (len(aa) > 3 and aa[3])):
            return False
        fk = aa[1].as_atom()
        dk = aa[2][0].as_atom()
        if not (fk and fk[0] == "sub" and dk and dk[0] == "sub" and dk[1].key() == tv.param_names[0] and len(dk[2]) == 1 and len(fk[2]) == 1):
            return False
        if fk[1].key() == "$SHELX_FORMATTERS":
            return fk[2][0].key() == dk[2][0].key()
        item = fk[1].as_atom()
        return bool(item and item[0] == "sub" and item[1].key() == "$SHELX_FORMATTERS.items()" and fk[2][0] == P.const(1)
                    and dk[2][0].key() == P.atom(("sub", fk[1], (P.const(0),))).key())
    okapp = bool(app) and applied(app[0].extra["args"][0])
    shown = str(app[0].extra["args"][0])[:120] if app else None
    ra = tv.returns[-1].value.as_atom()
    if not app and ra and ra[0] == "call" and len(ra[2]) == 1:
        # "\n".join(<formatter applied> for ... in FORMATTERS[.items()])
        ca = ra[2][0].as_atom()
        if ca and ca[0] == "comp" and ca[1] in ("GeneratorExp", "ListComp") and len(ca) == 4 and len(ca[3]) == 1 and not ca[3][0][2]:
            okloop = ca[3][0][1].key() in ("$SHELX_FORMATTERS", "$SHELX_FORMATTERS.items()", "$SHELX_FORMATTERS.keys()")
            okapp = applied(ca[2])
            shown = str(ca[2])[:120]
    chk.ob("R10.2", SX, "to_res_contents", "each section is its formatter applied to the data under the same key, joined by newlines",
           applied_form or (okloop and okapp and tv.returns[-1].value.key().startswith("'\\n'.join(")), found=shown)
    # each formatter prefixes its own keyword
    for k, _, v in fm:
        va = v.as_atom()
        body = va[2] if va and va[0] == "lambda" else None
        txt = v.key()
        if k == "ATOM":
            continue
        if k == "CELL":
            cv = sx.ev("_cell_string")
            txt = cv.returns[0].value.key()
        chk.ob("R10.2", SX, "to_res_contents", f"the {k} section starts with the keyword {k}", f"{k} " in txt, fingerprint=f"kw:{k}", found=txt[:100])
    # atom line
    atom = d["ATOM"]
    fa = [a for a in find_atoms(atom, lambda a: a[0] == "call" and call_name(a) == ".format")]
    chk.need(fa, f"{wq}: atom line format not found")
    tmpl = string_value(fa[0][1].as_atom()[1])
    fields = [f for f in tmpl.split() if f.startswith("{")]
    args = fa[0][2]
    oka = len(fields) in (5, 6) and len(args) == len(fields) - 2 and args[2].as_atom() and args[2].as_atom()[0] == "starred"
    idx_l = args[0].key() if oka else ""
    # Crystal.site_atoms / site_positions are the asymmetric unit's atomic_numbers / positions (properties): one spelling for both
    canon = lambda k_: k_.replace("self.asymmetric_unit.atomic_numbers", "self.site_atoms").replace("self.asymmetric_unit.positions", "self.site_positions")
    okorder = oka and "asymmetric_unit.labels" in idx_l and "site_positions" in canon(args[2].key())
    chk.ob("R10.2", CR, wq, "an atom line is: label, SFAC index, x, y, z [, occupancy] (blank separated)", bool(okorder),
           found=f"{tmpl!r} <- {[str(a)[:50] for a in args]}")
    # the reader takes a sixth token as the occupancy: the format carries it, so the writer has to write it
    okocc = len(fields) == 6 and len(args) == 4 and "occupation" in args[3].key() and "asymmetric_unit" in args[3].key()
    chk.ob("R10.2", CR, wq, "the occupancy of every site is written as the sixth field of its atom line (the reader takes token 5 as the occupancy)",
           okocc, fingerprint="res-occupancy", expected="'{label} {sfac} {x} {y} {z} {occupancy}'", found=tmpl)
    sf = [e for e in wev.events if e.kind == "assign" and e.name == "atom_sfac"]
    okplus = False
    if not sf and oka:
        # no list of indices of its own: the atom line looks the index up per atom, TABLE[element of the atom]
        ia_ = args[1].as_atom()
        tb_ = ia_[1].as_atom() if ia_ and ia_[0] == "sub" and len(ia_[2]) == 1 else None
        if tb_ and tb_[0] == "comp" and tb_[1] == "DictComp" and len(tb_) == 5 and len(tb_[4]) == 1 and tb_[4][0][0] == "enumerate" and not tb_[4][0][2]:
            ka_ = tb_[2].as_atom()
            okplus = bool(ka_ and ka_[0] == "sub" and len(ka_[2]) == 1 and tb_[4][0][1].as_atom()[0] == "call"
                          and ka_[1].key() == tb_[4][0][1].as_atom()[2][0].key() and (tb_[3] - ka_[2][0]) == P.const(1)
                          and "site_atoms" in canon(ia_[2][0].key()))

            class _E:
                pass
            e_ = _E()
            e_.value = args[1]
            sf = [e_]
    if sf:
        # [sfac.index(x) + 1 for x in site_atoms]: the element's position in the SFAC list, counted from one
        ca0 = sf[0].value.as_atom()
        elt0 = ca0[2] if ca0 and ca0[0] == "comp" and ca0[1] in ("ListComp", "GeneratorExp") and len(ca0) == 4 else None
        if elt0 is not None:
            ix = [a for a in find_atoms(elt0, lambda a: a[0] == "call" and call_name(a) == ".index" and len(a[2]) == 1)]
            okplus = len(ix) == 1 and elt0 == P.atom(ix[0]) + 1 and "site_atoms" in canon(ix[0][2][0].key())
    if sf and not okplus:
        # a lookup table {element: position + 1 for position, element in enumerate(sfac)} indexed by the atom's element
        ca = sf[0].value.as_atom()
        elt = ca[2].as_atom() if ca and ca[0] == "comp" and ca[1] in ("ListComp", "GeneratorExp") and len(ca) == 4 else None
        tab = elt[1].as_atom() if elt and elt[0] == "sub" and len(elt[2]) == 1 else None
        if tab and tab[0] == "comp" and tab[1] == "DictComp" and len(tab) == 5 and len(tab[4]) == 1 and tab[4][0][0] == "enumerate" and not tab[4][0][2]:
            ka = tab[2].as_atom()
            okplus = bool(ka and ka[0] == "sub" and len(ka[2]) == 1 and tab[4][0][1].as_atom()[0] == "call"
                          and ka[1].key() == tab[4][0][1].as_atom()[2][0].key() and (tab[3] - ka[2][0]) == P.const(1)
                          and "site_atoms" in canon(elt[2][0].key()))
    chk.ob("R10.2", CR, wq, "the SFAC index written is the 1-based position of the atom's element in the SFAC list", okplus,
           found=str(sf[0].value)[:120] if sf else None)
    sfl = d["SFAC"].key()
    chk.ob("R10.2", CR, wq, "the SFAC list holds the symbols of exactly the list the indices refer to",
           ".symbol" in sfl and "numpy.unique(self.site_atoms)" in canon(sfl) and bool(sf) and "numpy.unique(self.site_atoms)" in canon(sf[0].value.key()),
           found=sfl[:120])
    pv = sx.ev("_parse_atom_line")
    chk.saw(SX, "_parse_atom_line")
    ret = dict_items(pv.returns[0].value)
    r = {k: v for k, _, v in ret} if ret else {}
    sfac_p, line_p = pv.param_names[0], pv.param_names[1]
    okr = r.get("label") is not None and r["label"].key() == f"{line_p}.split()[0]" and \
        r.get("element") is not None and r["element"].key() == f"{sfac_p}[-1 + int({line_p}.split()[1])]"
    pos = seq_items(r.get("position")) if r.get("position") is not None else None
    okpos = pos is not None and len(pos) == 3 and all(f"{line_p}.split()[(slice 2 5 None)]" in x.key() for x in pos)
    chk.ob("R10.2", SX, "_parse_atom_line", "the reader takes token 0 as label, token 1 (minus one) as SFAC index, tokens 2:5 as x, y, z",
           okr and okpos, found=str({k: str(v)[:60] for k, v in r.items()}))
    occ_r = r.get("occupation")
    chk.ob("R10.2", SX, "_parse_atom_line", "the reader takes token 5, when present, as the occupancy", occ_r is not None and
           f"float({line_p}.split()[5])" in occ_r.key() or (occ_r is not None and f"{line_p}.split()[5]" in occ_r.key()), fingerprint="res-occupancy-reader",
           found=str(occ_r)[:100])
    # "when present" means: whenever the line has a sixth token -- the writer's atom line ends with the occupancy (six fields), so a test that
    # asks for more tokens than that ignores the occupancies the library itself wrote
    oa = occ_r.as_atom() if occ_r is not None else None
    if oa and oa[0] == "ite" and f"{line_p}.split()[5]" in oa[2].key() and f"{line_p}.split()" not in oa[3].key():
        ca = oa[1].as_atom()
        ntok = f"len({line_p}.split())"
        need = None            # smallest number of tokens for which the occupancy is read
        if ca and ca[0] in ("lt", "le") and ca[2].key() == ntok and ca[1].key().lstrip("-").isdigit():
            need = int(ca[1].key()) + (1 if ca[0] == "lt" else 0)
        elif ca and ca[0] == "ne" and ca[1].key() in (ntok, "5") and ca[2].key() in (ntok, "5"):
            need = 6           # tokens[:5] are indexed unconditionally, so len != 5 is len >= 6
        chk.ob("R10.2", SX, "_parse_atom_line", "token 5 is read as the occupancy on every line that has six or more tokens (the writer's atom line "
               "has exactly six)", need == 6, fingerprint="res-occupancy-present", expected=f"len({line_p}.split()) > 5", found=str(oa[1])[:100])
    # the records the SHELX reader produces are consumed by AsymmetricUnit.from_records: every key it asks for is a key the parser writes
    # (a .get("occupancy", 1.0) on records that carry "occupation" always answers 1.0)
    try:
        au = chk.repo.module("crystal/asymmetric_unit.py")
        fr = au.funcs.get("AsymmetricUnit.from_records")
    except Exception:      # noqa: BLE001
        fr = None
    if fr is not None and r:
        asked = set()
        for node in ast.walk(fr):
            if isinstance(node, ast.Subscript) and isinstance(node.slice, ast.Constant) and isinstance(node.slice.value, str) and isinstance(node.value, ast.Name):
                asked.add(node.slice.value)
            if isinstance(node, ast.Call) and isinstance(node.func, ast.Attribute) and node.func.attr == "get" and isinstance(node.func.value, ast.Name) \
                    and node.args and isinstance(node.args[0], ast.Constant) and isinstance(node.args[0].value, str):
                asked.add(node.args[0].value)
        chk.saw("crystal/asymmetric_unit.py", "AsymmetricUnit.from_records")
        chk.ob("R10.2", "crystal/asymmetric_unit.py", "AsymmetricUnit.from_records", "every key read from an atom record is a key the SHELX atom-line "
               "parser writes (label, element, position, occupation)", bool(asked) and asked <= set(r), fingerprint="record-keys",
               expected=sorted(r), found=sorted(asked - set(r)) or sorted(asked))
    # CELL
    cv = sx.ev("_parse_cell")
    rc = dict_items(cv.returns[0].value)
    rcd = {k: v.key() for k, _, v in rc} if rc else {}
    chk.ob("R10.2", SX, "_parse_cell", "CELL tokens: wavelength, three lengths, three angles",
           "[0]" in rcd.get("wavelength", "") and "(slice 1 4 None)" in rcd.get("lengths", "") and "(slice 4 7 None)" in rcd.get("angles", ""),
           found=str(rcd)[:200])
    cs = sx.ev("_cell_string")
    tm = cs.returns[0].value
    fa2 = [a for a in find_atoms(tm, lambda a: a[0] == "call" and call_name(a) == ".format")]
    t2 = string_value(fa2[0][1].as_atom()[1]) if fa2 else ""
    chk.ob("R10.2", SX, "_cell_string", "the CELL line has a wavelength followed by six parameters",
           t2.split()[:1] == ["CELL"] and t2.count("{}") == 6 and len(t2.split()) == 8, found=t2)
    chk.ob("R10.2", CR, wq, "CELL is written from unit_cell.parameters (lengths, then angles in degrees) and read back as degrees",
           d["CELL"].key() == "self.unit_cell.parameters" and angle_unit(P.atom(("sub", d["CELL"], (P.atom(("slice", P.const(3), P.atom(("const", None)), P.atom(("const", None)))),)))) == "deg"
           and "unit='degrees'" in cr.ev("Crystal.from_shelx_string").returns[0].value.key() or
           any("unit='degrees'" in e.value.key() for e in cr.ev("Crystal.from_shelx_string").events if e.kind == "assign" and e.name == "unit_cell"),
           found=d["CELL"].key())
    pq = "UnitCell.parameters"
    ucm = repo.module("crystal/unit_cell.py")
    pe = ucm.ev(pq)
    okpar = pe.returns[0].value.key().startswith("numpy.hstack((tuple (<l@") and "<deg@" in pe.returns[0].value.key()
    dg = [e for e in pe.events if e.kind == "assign" and e.name == "deg"]
    chk.ob("R10.2", "crystal/unit_cell.py", pq, "parameters = (lengths, angles converted to degrees)",
           okpar and bool(dg) and obj_init(dg[0].value).key() == "degrees(self.angles)", found=str(pe.returns[0].value))
    # equal-value snapping: X[mask_i] = X[i] is only the identity up to the tolerance when the mask was computed from X itself
    snaps = 0
    for e in pe.events:
        if e.kind != "store":
            continue
        t = e.target.as_atom()
        if not (t and t[0] == "sub" and t[1].as_atom() and t[1].as_atom()[0] == "obj" and len(t[2]) == 1):
            continue
        mask = t[2][0]
        close = find_atoms(mask, lambda a: a[0] == "call" and call_name(a) in ("numpy.isclose",))
        if not find_atoms(mask, lambda a: a[0] in ("lt", "le", "eq")) and not close:
            continue
        snaps += 1
        # the tolerance below which two parameters are written as one value must not exceed the written precision
        # (CELL carries >= 5 decimals, R10.5): an absolute constant <= 1e-5; a relative tolerance grows with the value
        tol_ok, tol_found = False, None
        if close:
            kw = dict(close[0][3]) if len(close[0]) > 3 and close[0][3] else {}
            rt, at = kw.get("rtol"), kw.get("atol")
            tol_found = f"numpy.isclose(rtol={rt if rt is not None else '1e-05 (default, relative)'}, atol={at if at is not None else '1e-08 (default)'})"
            tol_ok = rt is not None and rt.const_value() == 0 and at is not None and at.const_value() is not None and 0 < at.const_value() <= Fraction(1, 10 ** 5)
        else:
            for a in find_atoms(mask, lambda a: a[0] in ("lt", "le")):
                bound = a[2]
                bv = bound.const_value()
                inner = a[1].as_atom()
                if bv is not None and inner and call_name(inner) in ("numpy.abs", "abs", "numpy.absolute", "numpy.fabs"):
                    tol_found = f"|difference| {a[0]} {float(bv):g}"
                    tol_ok = 0 < bv <= Fraction(1, 10 ** 5)
        chk.ob("R10.2", "crystal/unit_cell.py", pq, "parameters are merged only below an absolute tolerance no larger than the written precision (1e-5)",
               tol_ok, node=e.node, fingerprint=f"snap-tol:{t[1].as_atom()[1]}", expected="|x_i - x_j| < atol with a constant atol <= 1e-5",
               found=tol_found or str(mask)[:120])
        objs = {P.atom(a).key() for a in find_atoms(mask, lambda a: a[0] == "obj")} | {P.atom(a).key() for a in find_atoms(e.value, lambda a: a[0] == "obj")}
        chk.ob("R10.2", "crystal/unit_cell.py", pq, "a masked overwrite X[mask] = X[i] uses a mask computed from X itself (lengths snap to lengths, angles to angles)",
               objs == {t[1].key()}, node=e.node, fingerprint=f"snap:{t[1].as_atom()[1]}:{e.value}", expected=f"mask and value derived from {t[1]} only",
               found=sorted(objs))
    chk.need(snaps == 0 or snaps >= 2, f"{pq}: unexpected snapping structure")
    # identity omitted / seeded ; LATT and reduced SYMM
    sy = d["SYMM"].key()
    chk.ob("R10.2", CR, wq, "SYMM lists the reduced operations without the identity; LATT is the group's LATT number",
           "reduced_symmetry_operations()" in sy and "is_identity()" in sy and d["LATT"].key() == "self.space_group.latt", found=sy[:160])
    rv = sx.ev("parse_shelx_file_content")
    chk.saw(SX, "parse_shelx_file_content")
    seed = [e for e in rv.events if e.kind == "assign" and e.name == "shelx_dict"]
    okseed = bool(seed) and "from_string_code('x,y,z')" in obj_init(seed[0].value).key()
    if seed and not okseed:
        # the two lists bound to names of their own first
        its = {k: obj_init(v) for k, _, v in (dict_items(obj_init(seed[0].value)) or [])}
        okseed = "SYMM" in its and "from_string_code('x,y,z')" in its["SYMM"].key() and seq_items(its["SYMM"]) is not None and len(seq_items(its["SYMM"])) == 1
    chk.ob("R10.2", SX, "parse_shelx_file_content", "the reader seeds SYMM with the identity and ATOM with an empty list", okseed,
           found=str(obj_init(seed[0].value))[:160] if seed else None)
    fr = cr.ev("Crystal.from_shelx_string")
    sgv = [e for e in fr.events if e.kind == "assign" and e.name == "space_group"]
    chk.ob("R10.2", CR, "Crystal.from_shelx_string", "the space group is identified from SYMM expanded by LATT",
           bool(sgv) and "['SYMM']" in sgv[0].value.key() and "expand_latt=" in sgv[0].value.key() and "['LATT']" in sgv[0].value.key(),
           found=str(sgv[0].value)[-160:] if sgv else None)


def r10_3(chk, repo, cr):
    vw = repo.module(VW)
    vr = repo.module(VR)
    wq = "poscar_string"
    ev = vw.ev(wq, opaque={"uc", "ordering", "direct", "els", "counts", "coords", "element_counts", "coord", "elements", "pos"})
    chk.saw(VW, wq)
    pieces = pieces_of(ev.returns[0].value)
    chk.need(pieces is not None, f"{wq}: result is not an f-string")
    seq = []
    for p in pieces:
        if p.kind == "lit":
            for part in p.text.split("\n"):
                if part.strip():
                    seq.append(("lit", part.strip()))
        else:
            seq.append(("fmt", p.value.key()))
    want = [("fmt", ev.param_names[1]), ("lit", "1.0"), ("fmt", "$direct"), ("fmt", "$els"), ("fmt", "$counts"), ("lit", "Direct"), ("fmt", "$coords")]
    seps_ok = all(p.text.count("\n") >= 1 and "\n\n" not in p.text for p in pieces if p.kind == "lit")
    chk.ob("R10.3", VW, wq, "sections: name, scale, lattice rows, symbols, counts, coordinate type, coordinates - one per line group",
           seq == want and seps_ok, expected=str(want), found=str(seq))
    defs = {k[1]: v for k, v in ev.defs.items()}
    alld = {}
    for k, v in ev.defs.items():
        alld.setdefault(k[1], []).append(v)
    chk.ob("R10.3", VW, wq, "the lattice is written as the three rows of unit_cell.direct (x, y, z per row)",
           "crystal.unit_cell.direct" in defs["direct"].key() and defs["direct"].key().startswith("'\\n'.join("), found=defs["direct"].key()[:160])
    okperm = alld["coord"][0].key() == "$pos[$ordering]" and alld["elements"][-1].key() == "$elements[$ordering]" and \
        defs["ordering"].key() == "numpy.argsort($elements)" and alld["pos"][0].key() == "$uc['frac_pos']" and alld["elements"][0].key() == "$uc['element']"
    chk.ob("R10.3", VW, wq, "coordinates and elements are permuted by one and the same argsort of the elements", okperm,
           found=str({k: [str(x) for x in v] for k, v in alld.items() if k in ("coord", "elements", "ordering")}))
    ek, ck = defs["els"].key(), defs["counts"].key()
    if "element_counts" in defs:
        okcnt = defs["element_counts"].key() == "collections.Counter($elements'1)" and ("$element_counts.keys()" in ek or "((iter $element_counts ()" in ek) \
            and "$element_counts.values()" in ck and ".symbol" in ek
    else:
        # np.unique(sorted elements, return_counts=True): values ascending, counts in the same order ([0] feeds the symbols, [1] the counts)
        uq = "numpy.unique($elements'1, return_counts=True)"
        okcnt = f"{uq}[0]" in ek and f"{uq}[1]" in ck and ".symbol" in ek and f"{uq}[1]" not in ek and f"{uq}[0]" not in ck
    chk.ob("R10.3", VW, wq, "symbols and run lengths come from one Counter of the sorted elements (keys and values in the same order)",
           okcnt, found=f"{defs['els']} / {defs['counts']}"[:200])
    chk.ob("R10.3", VW, wq, "'Direct' coordinates are the fractional positions", space_of(alld["pos"][0]) == "frac" and "$coord" in defs["coords"].key(),
           found=str(alld["pos"][0]))
    rq = "parse_poscar"
    rev = vr.ev(rq, opaque={"lines", "elements", "N"})
    chk.saw(VR, rq)
    st = {}
    for e in rev.events:
        if e.kind == "store" and e.target.as_atom()[0] == "sub":
            st[string_value(e.target.as_atom()[2][0])] = e.value.key()
    okidx = "$lines[0]" in st.get("name", "") and "$lines[1]*" in st.get("direct", "") and "$lines[(slice 2 5 None)]" in st.get("direct", "") \
        and "$lines[7]" in st.get("coord_type", "") and "$lines[(slice 8 8 + $N None)]" in st.get("positions", "")
    chk.ob("R10.3", VR, rq, "the reader takes line 0 as name, 1 as scale, 2:5 as lattice, 7 as coordinate type, 8:8+N as coordinates", okidx,
           found=str(st)[:300])
    zl = [l for l in rev.all_loops if l.kind == "zip"]
    okz = bool(zl) and "$lines[5].split()" in zl[0].iter.key() and "$lines[6].split()" in zl[0].iter.key()
    chk.ob("R10.3", VR, rq, "line 5 (symbols) and line 6 (counts) are read pairwise to expand the element runs", okz,
           found=str(zl[0].iter) if zl else None)
    chk.ob("R10.3", VR, rq, "the lattice and the coordinates are reshaped to rows of three",
           "reshape((tuple (3 3)))" in st.get("direct", "") and "reshape((tuple (-1 3)))" in st.get("positions", ""), found=st.get("positions", "")[-80:])
    fv = cr.ev("Crystal.from_vasp_string")
    chk.saw(CR, "Crystal.from_vasp_string")
    conv = [e for e in fv.events if e.kind == "assign" and e.name == "coords" and e.guards]
    okc = bool(conv) and ".to_fractional(" in conv[0].value.key() and any("startswith('d')" in c.key() and not pol or ("startswith('d')" in c.key() and c.as_atom()[0] == "not" and pol)
                                                                           for c, pol in conv[0].guards)
    chk.ob("R10.3", CR, "Crystal.from_vasp_string", "coordinates are converted to fractional only when the type line does not start with 'd'; the cell is UnitCell(direct); space group P1",
           okc and "UnitCell(" in fv.returns[0].value.key() and "SpaceGroup(1)" in fv.returns[0].value.key(), found=str(conv[0].value)[:100] if conv else None)
    # the crystal's cell is the cell of the file's lattice vectors themselves (a cell rebuilt from lengths and angles is the same cell in
    # another orientation: the lattice vectors and every Cartesian position change)
    ra = fv.returns[0].value.as_atom()
    cell = ra[2][0] if ra and ra[0] == "call" and ra[2] else None
    ca = cell.as_atom() if cell is not None else None
    from_vectors = bool(ca and ca[0] == "call" and call_name(ca).endswith("UnitCell") and len(ca[2]) == 1 and ca[2][0].key().endswith("['direct']"))
    chk.ob("R10.3", CR, "Crystal.from_vasp_string", "the cell of the loaded crystal is built from the file's lattice vectors (UnitCell(direct)), the same cell "
           "that converts Cartesian input", from_vectors and (not conv or f"{cell}.to_fractional(" in conv[0].value.key()), node=fv.returns[0].node,
           fingerprint="poscar-cell-vectors", expected="UnitCell(vasp_data['direct'])", found=str(cell)[:140])


def _ret_dict(mod, q):
    ev = mod.ev(q)
    for e in ev.returns:
        items = dict_items(e.value)
        if items is not None:
            out = {}
            for k, _, v in items:
                va = v.as_atom()
                out[k] = va[2] if va and va[0] == "attr" else str(v)
            return out
    raise AnalysisError(f"{q}: does not return a literal dictionary")


def r10_4(chk, repo, cr):
    save = _ret_dict(cr, "Crystal._ext_save_map")
    load = _ret_dict(cr, "Crystal._ext_load_map")
    fsave = _ret_dict(cr, "Crystal._fname_save_map")
    fload = _ret_dict(cr, "Crystal._fname_load_map")
    fmt_of = {"cif": "cif", "shelx": "shelx", "poscar": "vasp", "vasp": "vasp"}
    for ext, meth in sorted(save.items()):
        fmt = meth[3:-5]
        lm = load.get(ext, "")
        chk.ob("R10.4", CR, "Crystal._ext_save_map", f"extension {ext}: saved by {meth}, loaded by a reader of the same format",
               lm == f"from_{fmt}_file", fingerprint=f"ext:{ext}", expected=f"from_{fmt}_file", found=lm)
        wv = cr.ev(f"Crystal.{meth}")
        chk.ob("R10.4", CR, f"Crystal.{meth}", f"{meth} writes what to_{fmt}_string / to_{fmt}_data produces",
               any(f".to_{fmt}_string" in (call_name(e.value.as_atom() or ()) or "") or f".to_{fmt}_data" in (call_name(e.value.as_atom() or ()) or "")
                   for e in wv.events if e.kind == "call"), fingerprint=f"writer:{meth}")
    for name, meth in sorted(fsave.items()):
        fmt = fmt_of.get(meth[3:-5], meth[3:-5])
        lm = fload.get(name, "")
        chk.ob("R10.4", CR, "Crystal._fname_save_map", f"file name {name}: saved by {meth}, loaded by from_{fmt}_file", lm == f"from_{fmt}_file",
               fingerprint=f"fname:{name}", expected=f"from_{fmt}_file", found=lm)

    def ext_term(q):
        ev = cr.ev(q)
        fname = ev.param_names[1]
        for e in ev.returns:
            for a in find_atoms(e.value, lambda a: a[0] == "sub" and "_ext_" in a[1].key()):
                return a[2][0].subs({("name", fname): P.name("FILENAME"), ("name", "self"): P.name("OBJ"), ("name", "cls"): P.name("OBJ")})
        raise AnalysisError(f"{q}: extension lookup not found")
    a, b = ext_term("Crystal.save"), ext_term("Crystal.load")
    chk.ob("R10.4", CR, "Crystal.save", "save and load normalise the extension / fmt= argument identically", a.key() == b.key(),
           expected=str(b), found=str(a))


def r10_5(chk, repo, cr):
    wev = cr.ev("Crystal.to_shelx_string")
    for e in wev.events:
        if e.kind == "assign" and e.name == "shelx_data":
            d = {k: v for k, _, v in dict_items(e.value)}
    fa = [a for a in find_atoms(d["ATOM"], lambda a: a[0] == "call" and call_name(a) == ".format")]
    tmpl = string_value(fa[0][1].as_atom()[1])
    import re
    specs = re.findall(r"\{:([^}]*)\}", tmpl)
    coord = [Spec(s) for s in specs[2:5]]
    chk.ob("R10.5", CR, "Crystal.to_shelx_string", "SHELX coordinates are written fixed-point with >= 8 decimals",
           len(coord) == 3 and all(s.type == "f" and (s.prec or 0) >= 8 for s in coord), found=specs)
    cs = repo.module(SX).ev("_cell_string")
    rd = [a for a in find_atoms(cs.returns[0].value, lambda a: a[0] == "call" and call_name(a) == "round")]
    okr = bool(rd) and len(rd[0][2]) == 2 and (rd[0][2][1].const_value() or 0) >= 5
    chk.ob("R10.5", SX, "_cell_string", "CELL parameters are rounded to >= 5 decimals (not truncated to fewer)", okr,
           found=str(P.atom(rd[0])) if rd else None)
    ff = repo.module("fmt/cif.py").ev("format_field")
    from ..layout import float_roundtrips
    okf = False
    for e in ff.returns:
        p = pieces_of(e.value)
        if p and len(p) == 1 and p[0].kind == "fmt" and any(pol and "isinstance" in c.key() and "float" in c.key() for c, pol in e.guards):
            okf = float_roundtrips(p[0]) or (p[0].spec.type == "f" and (p[0].spec.prec or 0) >= 8)
    chk.ob("R10.5", "fmt/cif.py", "format_field", "CIF loop floats carry at least 8 decimals (round-trip text or fixed-point with >= 8 decimals)", okf)
    vw = repo.module(VW).ev("poscar_string")
    n = 0
    for e in vw.events:
        if e.kind == "assign" and e.name in ("direct", "coords"):
            for a in find_atoms(e.value, lambda a: a[0] == "fstr"):
                ps = pieces_of(P.atom(a))
                fm = [p for p in ps if p.kind == "fmt"]
                n += 1
                chk.ob("R10.5", VW, "poscar_string", f"POSCAR {e.name} rows are written x, y, z with >= 8 decimals, blank separated",
                       len(fm) == 3 and all(p.spec.type == "f" and (p.spec.prec or 0) >= 8 for p in fm) and
                       all(p.text.strip() == "" and p.text for p in ps if p.kind == "lit"), fingerprint=f"poscar:{e.name}",
                       found=[repr(p) for p in ps])
    chk.need(n == 2, "poscar_string: lattice / coordinate row templates not found")
    cifw = cr.ev("Crystal.to_cif_string")
    chk.ob("R10.5", CR, "Crystal.to_cif_string", "the CIF text is Cif(to_cif_data()).to_string()",
           "chmpy.fmt.cif.Cif(self.to_cif_data(" in cifw.returns[0].value.key() and cifw.returns[0].value.key().endswith(".to_string()"),
           found=str(cifw.returns[0].value))
