"""C18 — rigid alignment returns a proper rotation: determinant-sign typestate, convention agreement, RMSD helper."""
from __future__ import annotations

from ..core import AnalysisError
from ..poly import P
from ..symex import Ev, find_atoms, call_name, seq_items, matmul, transpose, obj_init

NUM = "util/num.py"
DM = "core/dimer.py"


def branch_free(chk, ev, q, v, w, names, det):
    """R = v . diag(1, ..., 1, sgn) . w written without a branch: the sign vector d (ones, last entry sign(det v det w)) scales the COLUMNS of v
    (v * d, v * d[None, :]) or the ROWS of w (d[:, None] * w).  Returns False when the function is not of that form."""
    ret = ev.returns[-1] if ev.returns else None
    ra = ret.value.as_atom() if ret is not None and ret.value is not None else None
    if not (ra and ra[0] == "matmul" and len(ra[1]) == 2):
        return False
    X, Y = ra[1]
    dobjs = [P.atom(a) for a in find_atoms(ret.value, lambda t: t[0] == "obj")]
    if len({d.key() for d in dobjs}) != 1:
        return False
    d = dobjs[0]
    ia = obj_init(d).as_atom()
    ones = bool(ia and call_name(ia) in ("numpy.ones_like", "numpy.ones"))
    stores = [e for e in ev.events if e.kind in ("store", "aug") and e.target.as_atom() and e.target.as_atom()[1].key() == d.key()]
    sgn = P.atom(("call", P.name("numpy.sign"), (det(v) * det(w),)))
    oks = len(stores) == 1 and stores[0].kind == "store" and not stores[0].guards and stores[0].target.as_atom()[2] == (P.const(-1),) \
        and stores[0].value in (sgn, P.atom(("call", P.name("numpy.sign"), (det(matmul(v, w)),))))
    chk.ob("R18.1", "util/num.py", q, "branch-free correction: the sign vector is all ones except its last entry, sign(det(v)*det(w))", ones and oks,
           fingerprint="condition", found=f"{obj_init(d)}; {[str(e.target) + ' = ' + str(e.value)[:80] for e in stores]}")
    full = P.atom(("slice", P.atom(("const", None)), P.atom(("const", None)), P.atom(("const", None))))
    col = [d] + [P.atom(("sub", d, (nx, full))) for nx in (P.name("numpy.newaxis"), P.atom(("const", None)))]
    row = [P.atom(("sub", d, (full, nx))) for nx in (P.name("numpy.newaxis"), P.atom(("const", None)))]
    okf = (Y == w and any(X == c * v for c in col)) or (X == v and any(Y == r * w for r in row))
    chk.ob("R18.1", "util/num.py", q, "the sign multiplies the last COLUMN of v (v * d) or the last ROW of w (d[:, None] * w): R = v . diag(d) . w",
           okf, fingerprint="flip", expected="numpy.dot(v * d, w)", found=str(ret.value)[:200])
    other = [e for e in ev.events if e.kind in ("store", "aug") and e.target.as_atom() and e.target.as_atom()[1].key() in (v.key(), w.key())]
    chk.ob("R18.1", "util/num.py", q, "v and w are not modified outside that branch", not other, found=[str(e.target) for e in other])
    chk.ob("R18.1", "util/num.py", q, "R = v . w is formed after the correction, on every path", len(ev.returns) == 1 and not ret.guards, found=str(ret.value)[:120])
    return True


def run(chk):
    repo = chk.repo
    num = repo.module(NUM)
    chk.explanation = ("util/num.py: a typestate over the sign of det(v)*det(w) through kabsch_rotation_matrix (unknown after the SVD, "
                       "split by the tested condition, flipped by negating one column/row), matrix words of covariance, rotation and "
                       "application, and the plumbing of rmsd_points and Dimer.calculate_transform.")
    chk.rule("R18.1", "on every path to R = v.w the sign of det(v)*det(w) is positive: the tested product selects the branch that negates exactly one (the last) column of v or row of w", 5)
    chk.rule("R18.2", "convention agreement: cov = A^T.B, R = v.w, application A.R", 3)
    chk.rule("R18.3", "rmsd_points aligns through reorient_points when asked and returns sqrt(<d,d>/N) with d = B - A'; the dimer transform uses centred coordinates", 4)
    q = "kabsch_rotation_matrix"
    ev = num.ev(q, opaque={"cov"})
    chk.saw(NUM, q)
    A, B = P.name(ev.param_names[0]), P.name(ev.param_names[1])
    if chk.want("R18.1"):
        svd = [e for e in ev.events if e.kind == "call" and call_name(e.value.as_atom() or ()) == "numpy.linalg.svd"]
        chk.need(len(svd) == 1, f"{q}: SVD call not found")
        names = {}
        for e in ev.events:
            if e.kind == "assign" and e.name in ("v", "s", "w") and "numpy.linalg.svd" in obj_init(e.value).key():
                names[e.name] = e.value
        chk.need(set(names) == {"v", "s", "w"}, f"{q}: v, s, w = svd(...) unpacking not found")
        idx = {n: obj_init(v).as_atom()[2][0].const_value() for n, v in names.items()}
        chk.ob("R18.1", NUM, q, "the SVD factors are unpacked as (v, s, w) = (U, singular values, V^T)", idx == {"v": 0, "s": 1, "w": 2},
               found=str(idx))
        v, w = names["v"], names["w"]
        det = lambda x: P.atom(("call", P.name("numpy.linalg.det"), (x,)))
        tests = [e for e in ev.events if e.kind == "test"]
        if not tests and branch_free(chk, ev, q, v, w, names, det):
            tests = None
    if chk.want("R18.1") and tests is not None:
        chk.need(len(tests) == 1, f"{q}: expected one determinant test")
        c = tests[0].value.as_atom()
        okc = bool(c and c[0] == "lt" and c[2] == P.const(0) and (c[1] == det(v) * det(w) or c[1].key() == det(matmul(v, w)).key()))
        chk.ob("R18.1", NUM, q, "the branch condition is det(v)*det(w) < 0 (the improper case; det(cov) is NOT equivalent: it vanishes "
               "for planar / collinear sets)", okc, fingerprint="condition", found=str(tests[0].value))
        flips = []
        for e in ev.events:
            if e.kind in ("store", "aug") and e.guards and e.guards[-1][0].key() == tests[0].value.key():
                t = e.target.as_atom()
                base = t[1].key()
                if base == names["s"].key():
                    continue
                neg = (e.kind == "store" and (e.value + e.target).is_zero()) or (e.kind == "aug" and e.op == "Mult" and e.value == P.const(-1))
                flips.append((base, t[2], neg, e.guards[-1][1], e))
        okf = len(flips) == 1 and flips[0][2] and flips[0][3] is True
        which = None
        if okf:
            base, ix, _, _, e = flips[0]
            if base == v.key():
                which = "column of v"
                okf = len(ix) == 2 and ix[0].key().startswith("(slice None None None)") and ix[1] == P.const(-1)
            elif base == w.key():
                which = "row of w"
                okf = ix[0] == P.const(-1) and (len(ix) == 1 or ix[1].key().startswith("(slice None None None)"))
            else:
                okf = False
        chk.ob("R18.1", NUM, q, "inside that branch exactly one vector is negated: the last column of v or the last row of w "
               "(smallest singular value), flipping the sign of det(v)*det(w)", okf, fingerprint="flip",
               found=[(b, [str(i) for i in ix], neg) for b, ix, neg, _, _ in flips])
        other = [e for e in ev.events if e.kind in ("store", "aug") and not e.guards and e.target.as_atom()[1].key() in (v.key(), w.key())]
        chk.ob("R18.1", NUM, q, "v and w are not modified outside that branch", not other, found=[str(e.target) for e in other])
        ret = ev.returns[-1]
        chk.ob("R18.1", NUM, q, "R = v . w is formed after the correction, on every path", ret.value == matmul(v, w) and not ret.guards,
               expected=str(matmul(v, w)), found=str(ret.value))
    if chk.want("R18.2"):
        # the matrix handed to the SVD (read through the local that names it, when there is one)
        cov = [vv for k, vv in ev.defs.items() if k[1] == "cov"]
        svd = [e for e in ev.events if e.kind == "call" and call_name(e.value.as_atom() or ()) == "numpy.linalg.svd"]
        arg = svd[0].extra["args"][0] if svd and svd[0].extra.get("args") else None
        named = arg is not None and arg.key() == "$cov"
        covv = cov[0] if (named or arg is None) and cov else arg
        chk.ob("R18.2", NUM, q, "covariance is A^T . B", covv is not None and covv == matmul(transpose(A), B), expected=str(matmul(transpose(A), B)),
               found=str(covv) if covv is not None else None)
        chk.ob("R18.2", NUM, q, "the SVD is taken of that covariance", bool(svd) and (named or not cov))
        rv = num.ev("reorient_points")
        chk.saw(NUM, "reorient_points")
        a0, b0 = P.name(rv.param_names[0]), P.name(rv.param_names[1])
        R = P.atom(("call", P.name("kabsch_rotation_matrix"), (a0, b0)))
        rr = [e for e in rv.events if e.kind == "raise"]
        chk.ob("R18.2", NUM, "reorient_points", "the Kabsch method is the one that is carried out: only another method name is refused", all(
            e.guards and (e.guards[-1][0].as_atom() or ("",))[0] == "eq" and "'kabsch'" in e.guards[-1][0].key() and not e.guards[-1][1] for e in rr),
            fingerprint="method-test", found=[f"{'' if e.guards[-1][1] else 'not '}{e.guards[-1][0]}" for e in rr if e.guards])
        chk.ob("R18.2", NUM, "reorient_points", "points are rotated by right multiplication A . R with R = kabsch(A, B)",
               rv.returns[-1].value == matmul(a0, R), expected=str(matmul(a0, R)), found=str(rv.returns[-1].value))
    if chk.want("R18.3"):
        rm = num.ev("rmsd_points")
        chk.saw(NUM, "rmsd_points")
        a0, b0 = P.name(rm.param_names[0]), P.name(rm.param_names[1])
        ret = rm.returns[-1].value
        ra = ret.as_atom()
        ok = False
        if ra and call_name(ra) == "sqrt":
            vd = find_atoms(ra[2][0], lambda t: t[0] == "call" and call_name(t) == "numpy.vdot")
            if vd:
                d = vd[0][2][0]
                ok = vd[0][2][0].key() == vd[0][2][1].key() and ra[2][0] == P.atom(vd[0]) / P.atom(("sub", P.atom(("attr", d, "shape")), (P.const(0),)))
                da = d
                # d = B - A' with A' = ite(reorient, reorient_points(A, B, method=reorient), A)
                aprime = b0 - d
                #   (or reorient_points' own word A . kabsch(A, B) written out in place)
                ap = aprime.as_atom()
                rp = num.ev("reorient_points")
                word = rp.returns[-1].value.subs({P.name(rp.param_names[0]).as_atom(): a0, P.name(rp.param_names[1]).as_atom(): b0})
                # ... called with (A, B) in that order: the first set is the one that is rotated, onto the second
                ca_ = ap[2].as_atom() if ap is not None and ap[0] == "ite" else None
                called = bool(ca_ and ca_[0] == "call" and call_name(ca_) == "reorient_points" and len(ca_[2]) >= 2 and ca_[2][0].key() == a0.key()
                              and ca_[2][1].key() == b0.key())
                ok = ok and ap is not None and ap[0] == "ite" and ap[3].key() == a0.key() and (called or ap[2].key() == word.key())
        chk.ob("R18.3", NUM, "rmsd_points", "RMSD = sqrt(<d, d> / N) with d = B - (aligned A)", ok, found=str(ret)[:200])
        # every exit reports that deviation: a shortcut return (e.g. from singular values, |A|^2 + |B|^2 - 2 sum s, which is the
        # optimum over ALL orthogonal matrices, reflections included) is a different quantity
        others = [r for r in rm.returns[:-1] if r.value is not None and r.value.key() != ret.key()]
        chk.ob("R18.3", NUM, "rmsd_points", "every return of rmsd_points is the deviation of the explicitly aligned points (one formula on all paths)",
               not others, node=others[0].node if others else None, fingerprint="rmsd:single-formula",
               found=[f"line {r.lineno}: return {str(r.value)[:120]}" for r in others][:2])
        dm = repo.module(DM)
        dv = dm.ev("Dimer.calculate_transform", opaque={"pos_a", "pos_b", "v_a", "v_b", "R"})
        chk.saw(DM, "Dimer.calculate_transform")
        defs = {k[1]: v for k, v in dv.defs.items()}
        chk.ob("R18.3", DM, "Dimer.calculate_transform", "both point sets are centred on their own centroids before alignment",
               defs.get("pos_a") is not None and defs["pos_a"].key() == "-$v_a + self.a.positions" and defs["pos_b"].key() == "-$v_b + self.b.positions"
               and defs["v_a"].key() == "self.a.centroid" and defs["v_b"].key() == "self.b.centroid", found=str({k: str(v) for k, v in defs.items()}))
        # convention: transform_ab = (R, v_b - v_a) with pos_b . R ~ pos_a, i.e. R = kabsch(pos_b, pos_a) (or the transpose of kabsch(pos_a, pos_b))
        chk.ob("R18.3", DM, "Dimer.calculate_transform", "the stored rotation maps the centred second molecule onto the centred first one "
               "(kabsch(pos_b, pos_a), or the transpose of kabsch(pos_a, pos_b))",
               defs.get("R") is not None and defs["R"].key() in ("chmpy.util.num.kabsch_rotation_matrix($pos_b, $pos_a)",
                                                                  "(T chmpy.util.num.kabsch_rotation_matrix($pos_a, $pos_b))"),
               fingerprint="dimer-rotation", found=str(defs.get("R")))
        st = {e.target.key(): e.value.key() for e in dv.events if e.kind == "store"}
        VA, VB, RR = P.atom(("local", "v_a", 0)), P.atom(("local", "v_b", 0)), P.atom(("local", "R", 0))
        # (the pair wherever it is stored: in a store of its own, or as one alternative of a conditional value)
        tr = []
        for e in dv.events:
            if e.kind == "store" and e.target.key() == "self.transform_ab":
                if seq_items(e.value) is not None:
                    tr.append(e.value)
                else:
                    tr.extend(P.atom(a) for a in find_atoms(e.value, lambda a: a[0] == "tuple" and len(a[1]) == 2))
        chk.ob("R18.3", DM, "Dimer.calculate_transform", "transform_ab = (R, centroid_b - centroid_a)",
               len(tr) >= 1 and all(len(seq_items(t)) == 2 and seq_items(t)[0] == RR and seq_items(t)[1] == VB - VA for t in tr),
               expected="(R, v_b - v_a)", found=st.get("self.transform_ab"))
        guard = [e for e in dv.events if e.kind == "test" and "len(self.a)" in e.value.key()]
        # ... and only those: the alignment is reached with equal sizes (the size test holds as an equality on the way to it)
        kab = [e for e in dv.events if e.kind == "call" and "kabsch_rotation_matrix" in (call_name(e.value.as_atom() or ()) or "")]
        sized = bool(kab) and all(any(pol and (c.as_atom() or ("",))[0] == "eq" and "len(self.a)" in c.key() and "len(self.b)" in c.key() for c, pol in e.guards)
                                  for e in kab)
        chk.ob("R18.3", DM, "Dimer.calculate_transform", "sets of different size are rejected before alignment", bool(guard) and sized,
               found=[f"{'' if p else 'not '}{str(c)[:60]}" for e in kab for c, p in e.guards][:3])
    chk.assume("optimality as a numerical statement (SVD) and planar / collinear degeneracy are not decided")
    chk.assume("numpy.linalg.svd returns orthogonal factors with singular values in descending order (library contract)")
