"""C04 — unit-cell molecules: edge convention, index chains, recentring, partition, length-safe comparison."""
from __future__ import annotations

import ast

from ..core import AnalysisError
from ..poly import P
from ..symex import Ev, find_atoms, call_name, seq_items, obj_init
from .generic import string_value, dict_items, index_chain
from .c01 import wrap_of

CR = "crystal/crystal.py"
DM = "core/dimer.py"


def run(chk):
    repo = chk.repo
    cr = repo.module(CR)
    chk.explanation = ("unit_cell_connectivity / unit_cell_molecules / symmetry_unique_molecules: the writer's and reader's "
                       "edge-key convention and shift sign, one index chain for all per-atom arrays of a molecule, recentring "
                       "vector orientation and wrap idiom, partition by connected components, length-safe comparison of two "
                       "molecules' arrays, one bonding predicate for the in-cell and neighbour-cell passes.")
    chk.rule("R04.1", "edge convention: edges are stored under (lower, higher) with the higher atom's cell offset; the reader uses (j,i) with minus when j<i and (i,j) with plus otherwise", 6)
    chk.rule("R04.2", "one index chain: every per-atom argument of Molecule.from_arrays carries nodes then reorder exactly once", 6)
    chk.rule("R04.3", "recentring: translate by to_cartesian(wrap(fc) - fc) with fc the fractional centre of mass", 3)
    chk.rule("R04.4", "partition by construction: one molecule per component label; undirected traversal in both graph queries", 4)
    chk.rule("R04.5", "elementwise comparison of per-atom arrays of two different molecules is length-safe", 2)
    chk.rule("R04.6", "the bonded-pair predicate is symmetric and identical in the in-cell and neighbour-cell passes", 3)
    if chk.want("R04.1") or chk.want("R04.6"):
        r04_16(chk, cr)
    if chk.want("R04.1") or chk.want("R04.2") or chk.want("R04.3") or chk.want("R04.4"):
        r04_mol(chk, cr)
    if chk.want("R04.5"):
        r04_5(chk, repo, cr)
    chk.rule("R04.7", "image labelling: a unit-cell molecule takes the index of a unique molecule only when both have the same parent-site "
                      "indices (asymmetric_unit_atoms); the unique molecules are numbered by their position in the returned list; coverage of the asymmetric unit by construction", 3)
    if chk.want("R04.7"):
        r04_7(chk, cr)
    chk.rule("R04.8", "memo discipline of class Crystal (= C14 R14.2): every state-changing method drops every memoised quantity, including any newly introduced cache", 2)
    if chk.want("R04.8"):
        from .c14 import crystal_memo_rule
        crystal_memo_rule(chk, "R04.8")
        # the molecules are the ones for the bonding criterion the caller asks for, whatever was asked before (audit C04/3)
        from .. import memo as MEMO
        MEMO.check_memo_params(chk, "R04.8", CR, "Crystal", MEMO.instance_memos(cr, "Crystal"))
    chk.rule("R04.10", "the atoms the molecules are built from are the labelled images of their parent sites: block i of the orbit holds s_i(coordinates) "
                       "next to s_i's own code, for every operation once (= C01 R01.1)", 6)
    if chk.want("R04.10"):
        from ..inherit import inherit
        inherit(chk, "R04.10", "c01", ["R01.1"])
    chk.rule("R04.11", "the unit-cell atoms the molecules are built from are the distinct sites of the cell: wrap before merge, periodic and distance-based coincidence, aligned per-atom columns, occupancy-conserving merge (= C01 R01.2, R01.3, R01.4)", 4)
    if chk.want("R04.11"):
        from ..inherit import inherit
        inherit(chk, "R04.11", "c01", ["R01.2", "R01.3", "R01.4"])
    chk.rule("R04.14", "the molecules handed out are the ones that were assembled: the cached unit-cell / unique molecules are not modified in place after "
                       "they were stored (a shallow copy that shares its position array moves the crystal's own molecules with it) (= C14 R14.3)", 10)
    if chk.want("R04.14"):
        from ..inherit import inherit
        inherit(chk, "R04.14", "c14", ["R14.3"])
    chk.rule("R04.15", "the operations the images are generated with are the operations the file states: the x,y,z string codec of the CIF / SHELX "
                       "loading path keeps the sign and value of every term (= C11 R11.7; a decoder that drops the sign of -1/4 loads Fdd2 with "
                       "operators of no group at all, and the unit-cell molecules are no symmetry images of the asymmetric molecule)", 6)
    if chk.want("R04.15"):
        from ..inherit import inherit
        inherit(chk, "R04.15", "c11", ["R11.7"])
    chk.assume("the greedy choice of symmetry-unique molecules, Z' * |G| and all geometry (bonding distances) are not decided")
    chk.assume("scipy connected_components labels partition the nodes; breadth_first_order returns each node's predecessor")


def prefilter_of(ev):
    """The index array N when the neighbour cells are  slab['cell'][n_uc:][N]  (a pre-filtered subset of the neighbour images), else None."""
    cells = [v for k, v in ev.defs.items() if k[1] == "cells"]
    if cells:
        ca = cells[0].as_atom()
        if ca and ca[0] == "sub" and len(ca[2]) == 1 and ca[1].key() == "$slab['cell'][(slice $n_uc None None)]" and ca[2][0].as_atom() \
                and ca[2][0].as_atom()[0] != "slice":
            return ca[2][0]
    return None


def r04_16(chk, cr):
    from ..poly import _mentions as _m
    q = "Crystal.unit_cell_connectivity"
    ev = cr.ev(q, opaque={"slab", "dist", "tree", "tree2", "covalent_radii", "cells", "n_uc", "max_cov"})
    chk.saw(CR, q)
    app = [e for e in ev.events if e.kind == "call" and e.target is not None and e.target.key().endswith(".append")
           and "uc_edges" in e.target.key()]
    chk.need(len(app) == 2, f"{q}: expected two edge-append sites (in-cell and neighbour-cell)")
    if chk.want("R04.1"):
        # candidate pairs: the distance cut-off of the pair enumeration must not be below the largest bonding threshold r_i + r_j + tolerance
        # (2 max(r) + tolerance), and the neighbour images must come from all 26 surrounding cells (-1 .. 1 on every axis)
        tol = P.name(ev.param_names[1])
        mc = [v for k, v in ev.defs.items() if k[0] == "local" and k[1] == "max_cov"]
        mc_ok = bool(mc) and mc[0].key() in ("numpy.max($covalent_radii)", "$covalent_radii.max()", "max($covalent_radii)", "numpy.amax($covalent_radii)")
        MC = P.atom(("local", "max_cov", 0))
        for e0 in ev.events:
            if e0.kind != "call" or call_name(e0.value.as_atom() or ()) != ".sparse_distance_matrix":
                continue
            kw = dict(e0.extra["kwargs"])
            md = kw.get("max_distance") or (e0.extra["args"][1] if len(e0.extra["args"]) > 1 else None)
            okmd = False
            if md is not None and mc_ok:
                rest = md - 2 * MC - tol
                # k * max_cov + c extra with k >= 0, c >= 0
                if rest.const_value() is not None:
                    okmd = rest.const_value() >= 0
                elif rest.is_poly():
                    extra_k = (rest.subs({MC.as_atom(): P.const(1)}) - rest.subs({MC.as_atom(): P.const(0)})).const_value()
                    extra_c = rest.subs({MC.as_atom(): P.const(0)}).const_value()
                    okmd = extra_k is not None and extra_c is not None and extra_k >= 0 and extra_c >= 0 and (rest - extra_k * MC - extra_c).is_zero()
            chk.ob("R04.1", CR, q, "the pair enumeration reaches every possible bond: its cut-off is at least 2 max(covalent radius) + tolerance, the "
                   "largest value the bonding threshold r_i + r_j + tolerance can take", okmd, node=e0.node,
                   fingerprint=f"cutoff:{str(e0.target)[:20]}", expected="max_distance = 2 * max(covalent_radii) + tolerance", found=str(md))
        for e0 in ev.events:
            if e0.kind == "call" and call_name(e0.value.as_atom() or ()) == ".slab":
                b = dict(e0.extra["kwargs"]).get("bounds") or (e0.extra["args"][0] if e0.extra["args"] else None)
                it = seq_items(b) if b is not None else None
                lo = seq_items(it[0]) if it and len(it) == 2 else None
                hi = seq_items(it[1]) if it and len(it) == 2 else None
                okb = bool(lo and hi and len(lo) == 3 and len(hi) == 3 and all(x.const_value() is not None and x.const_value() <= -1 for x in lo)
                           and all(x.const_value() is not None and x.const_value() >= 1 for x in hi))
                chk.ob("R04.1", CR, q, "neighbour images are taken from all surrounding cells: the slab covers -1 .. 1 on every axis (a bond can cross any face, "
                       "edge or corner of the cell)", okb, node=e0.node, fingerprint="neighbour-cells", expected="bounds=((-1, -1, -1), (1, 1, 1))", found=str(b))
    preds = []
    for e in app:
        tup = seq_items(e.extra["args"][0])
        chk.need(tup is not None and len(tup) == 4, f"{q}: edge tuple is not (i, j, d, cell)")
        a, b, d, cell = tup
        # ordering guard a < b
        strict = False
        for c, pol in e.guards:
            ca = c.as_atom()
            if ca and ca[0] == "lt" and pol and ca[1].key() == a.key() and ca[2].key() == b.key():
                strict = True
            if ca and ca[0] == "le" and not pol and ca[1].key() == b.key() and ca[2].key() == a.key():
                strict = True
        if chk.want("R04.1"):
            chk.ob("R04.1", CR, q, "an edge is stored only under the key (lower index, higher index)", strict, node=e.node,
                   fingerprint=f"writer-order:{len(preds)}", found=[f"{'' if p else 'not '}{c}"[-90:] for c, p in e.guards][-2:])
        # every close pair is a candidate: what keeps a pair out of the graph is its index order or its distance, nothing else
        # (a pre-filter on positions, cells or flags silently drops bonds)
        if chk.want("R04.1"):
            base = set()
            for e0 in ev.events:
                if e0.kind == "assign" and e0.name in ("tree", "dist"):
                    base |= {(c.key(), p) for c, p in e0.guards}
            da = d.as_atom()
            other = []
            for c, pol in e.guards:
                if (c.key(), pol) in base:
                    continue
                ca = c.as_atom()
                order = bool(ca and ca[0] in ("lt", "le") and {ca[1].key(), ca[2].key()} == {a.key(), b.key()})
                dist_test = da is not None and _m(c, da)
                if not order and not dist_test:
                    other.append(f"{'' if pol else 'not '}{c}"[-100:])
            chk.ob("R04.1", CR, q, "every enumerated close pair is a candidate bond: a pair is left out only by the index order or the distance test",
                   not other, node=e.node, fingerprint=f"every-pair:{len(preds)}", found=other)
        # predicate
        # the bonding predicate: the conjunction of the guards on the distance (compound conditions arrive split into their conjuncts)
        from ..symex import boolop, negate
        from ..poly import _mentions
        parts = [cc if pol else negate(cc) for cc, pol in e.guards if d.as_atom() is not None and _mentions(cc, d.as_atom())]
        pred = (boolop("and", parts), a, b, d) if len(parts) >= 2 else None
        preds.append(pred)
        if chk.want("R04.1"):
            if cell.key() == "(tuple (0 0 0))" or all(x == P.const(0) for x in (seq_items(cell) or [1])):
                chk.ob("R04.1", CR, q, "an in-cell bond carries the zero cell offset", True, node=e.node, fingerprint="cell:zero")
            else:
                # cell = cells[neighbour_atom]; b = neighbour_atom % n_uc : the offset belongs to the second (higher) atom's image
                ca = cell.as_atom()
                inner = ca[2][0] if ca and call_name(ca) == "tuple" else cell
                ia = inner.as_atom()
                okc = False
                pre = prefilter_of(ev)
                if ia and ia[0] == "sub" and ia[1].key() == "$cells":
                    nb = ia[2][0]
                    ba = b.as_atom()
                    # rows of the neighbour arrays: all of them, or those picked by one index array N (then row k is image N[k])
                    row = nb if pre is None else P.atom(("sub", pre, (nb,)))
                    okc = bool(ba and ba[0] == "bin" and ba[1] == "Mod" and ba[2].key() == row.key() and ba[3].key() == "$n_uc")
                chk.ob("R04.1", CR, q, "a cross-cell bond carries the cell of the neighbour image, and that image's unit-cell atom is the "
                       "second (higher) index", okc, node=e.node, fingerprint="cell:neighbour", found=f"b={b} cell={cell}"[:300])
    if chk.want("R04.1") and prefilter_of(ev) is not None:
        N = prefilter_of(ev)
        POS = "$slab['frac_pos'][(slice $n_uc None None)]"
        t2 = [v for k, v in ev.defs.items() if k[1] == "tree2"]
        same_rows = bool(t2) and f"{POS}[{N}]" in t2[0].key()
        # N = where(all((pos > -m) & (pos < 1 + m), axis=1))[0] with m = D x |reciprocal axes| and D the distance of the pair query:
        # an image farther than D from the cell (in every direction, along each reciprocal axis) cannot be within D of an atom in it
        okm, why = False, "not a box test on the neighbour positions"
        na = N.as_atom()
        wa = na[1].as_atom() if na and na[0] == "sub" and na[2] and na[2][0] == P.const(0) else None
        if wa and call_name(wa) == "numpy.where" and len(wa[2]) == 1 and call_name(wa[2][0].as_atom() or ()) == "numpy.all":
            m = wa[2][0].as_atom()[2][0].as_atom()
            if m and m[0] == "bin" and m[1] == "BitAnd":
                lo = hi = None
                for side in (m[2], m[3]):
                    sa = side.as_atom()
                    if sa and sa[0] == "lt" and sa[2].key() == POS:
                        lo = sa[1]
                    elif sa and sa[0] == "lt" and sa[1].key() == POS:
                        hi = sa[2]
                dq = [v for k, v in ev.defs.items() if k[1] == "dist" and "$tree2" in v.key()]
                D = dict(dq[0].as_atom()[3]).get("max_distance") if dq and dq[0].as_atom() and len(dq[0].as_atom()) > 3 else None
                NORM = P.atom(("call", P.name("numpy.linalg.norm"), (P.atom(("attr", P.atom(("attr", P.name("self"), "unit_cell")), "inverse")),), (("axis", P.const(0)),)))
                if lo is not None and hi is not None and D is not None:
                    okm = (lo + D * NORM).is_zero() and (hi - 1 - D * NORM).is_zero()
                    why = f"box [{lo}, {hi}] against query distance {D}"
        chk.ob("R04.1", CR, q, "a pre-filter of the neighbour images keeps every image within the query distance of the cell: margin = distance x "
               "reciprocal axis lengths (distance / cell lengths is too small in an oblique cell), and positions, cells and indices use the same rows",
               okm and same_rows, fingerprint="prefilter", found=why[:300])
    if chk.want("R04.1"):
        cells = [v for k, v in ev.defs.items() if k[1] == "cells"]
        chk.ob("R04.1", CR, q, "neighbour cells and neighbour positions are the same rows of the slab (everything after the first n_uc)",
               bool(cells) and cells[0].key() in ("$slab['cell'][(slice $n_uc None None)]", f"$slab['cell'][(slice $n_uc None None)][{prefilter_of(ev)}]") and
               any("$slab['frac_pos'][(slice $n_uc None None)]" in e.value.key() for e in ev.events if e.kind == "assign" and e.value is not None),
               found=str(cells[0]) if cells else None)
        st = [e for e in ev.events if e.kind == "store" and e.loops]
        keys = {}
        for e in st:
            t = e.target.as_atom()
            keys[t[1].as_atom()[1]] = (tuple(i.key() for i in t[2]), e.value.key())
        okst = len(keys) == 2 and len({v[0] for v in keys.values()}) == 1
        chk.ob("R04.1", CR, q, "bond length and cell offset of an edge are stored under the same (i, j) key", okst, found=str(keys)[:200])
    if chk.want("R04.6"):
        chk.need(all(p is not None for p in preds), f"{q}: bonding predicate not found at both sites")

        def canon(p):
            c, a, b, d = p
            return c.subs({a.as_atom(): P.name("A"), b.as_atom(): P.name("B"), d.as_atom(): P.name("D")}) if a.as_atom() and b.as_atom() and d.as_atom() else c
        c0, c1 = canon(preds[0]), canon(preds[1])
        chk.ob("R04.6", CR, q, "both passes use the same bonding predicate", c0.key() == c1.key(), expected=str(c0)[:200], found=str(c1)[:200])
        sym = canon((preds[0][0], preds[0][2], preds[0][1], preds[0][3]))
        chk.ob("R04.6", CR, q, "the predicate is symmetric in the two atoms", sym.key() == c0.key(), found=str(c0)[:200])
        ok = "(lt 1/1000 D)" in c0.key() and "$covalent_radii[A]" in c0.key() and "$covalent_radii[B]" in c0.key() and "tolerance" in c0.key()
        chk.ob("R04.6", CR, q, "bonded means 1e-3 < d < cov[a] + cov[b] + tolerance", ok, found=str(c0)[:200])


def r04_mol(chk, cr):
    q = "Crystal.unit_cell_molecules"
    ev = cr.ev(q, opaque={"uc_graph", "edge_cells", "uc_dict", "nodes", "ordered", "pred", "mol", "uc_mols", "reorder", "n_uc_mols"})
    chk.saw(CR, q)
    defs = {k[1]: v for k, v in ev.defs.items()}
    if chk.want("R04.1"):
        st = [e for e in ev.events if e.kind == "store" and len(e.loops) == 2 and "shifts" in e.target.key()]
        if len(st) != 2:
            # whole molecules need the bond graph: an atom's cell is its bonded neighbour's cell plus the offset stored for that bond.
            # Any rule that places atoms relative to one reference atom (minimum image) tears molecules longer than half a cell.
            sh = [e for e in ev.events if e.kind in ("assign", "store") and (e.name == "shifts" or (e.target is not None and "shifts" in e.target.key()))]
            uses_graph = any("edge_cells" in e.value.key() for e in sh if e.value is not None)
            if sh and not uses_graph:
                chk.ob("R04.1", CR, q, "the cell offset of every atom is derived along the bonds (offset of its bonded predecessor plus the offset stored "
                       "for that edge)", False, node=sh[-1].node, fingerprint="shift-from-graph",
                       expected="shifts[j] = shifts[pred[j]] +- edge_cells[...] over a traversal of the molecule's bond graph",
                       found=f"shifts = {str(sh[-1].value)[:140]} (no use of the stored edge offsets)")
        chk.need(len(st) == 2, f"{q}: the two shift updates of the breadth-first walk were not found")
        loop = st[0].loops[-1]
        j = P.atom(("sub", loop.iter, (loop.index,)))
        i = P.atom(("sub", P.atom([k for k in ev.defs if k[1] == "pred"][-1]), (j,)))
        chk.ob("R04.1", CR, q, "the walk visits every node after the root and takes each node's predecessor as parent",
               loop.iter.key() == "$ordered[(slice 1 None None)]", found=str(loop.iter))
        for e in st:
            lt = None
            for c, pol in e.guards:
                ca = c.as_atom()
                if ca and ca[0] == "lt" and ca[1].key() == j.key() and ca[2].key() == i.key():
                    lt = pol
            tgt = e.target.as_atom()
            okt = tgt[2][0].key() == j.key()
            shifts = tgt[1]
            parent = P.atom(("sub", shifts, (i, P.atom(("slice", P.atom(("const", None)), P.atom(("const", None)), P.atom(("const", None)))))))
            ec = P.atom([k for k in ev.defs if k[1] == "edge_cells"][-1])
            if lt is True:
                want = parent - P.atom(("sub", ec, (j, i)))
                what = "child below parent: key (child, parent), offset subtracted"
            elif lt is False:
                want = parent + P.atom(("sub", ec, (i, j)))
                what = "child above parent: key (parent, child), offset added"
            else:
                want = None
                what = "branch on child < parent"
            chk.ob("R04.1", CR, q, f"reader: {what}", want is not None and okt and e.value == want, node=e.node,
                   fingerprint=f"reader:{lt}", expected=str(want), found=str(e.value))
        # positions = to_cartesian((uc_frac + shifts)[nodes])
    mol = defs.get("mol")
    chk.need(mol is not None and call_name(mol.as_atom() or ()) and "from_arrays" in call_name(mol.as_atom()), f"{q}: Molecule.from_arrays call not found")
    kw = dict(mol.as_atom()[3]) if len(mol.as_atom()) > 3 else {}
    for i_, pn_ in enumerate(("elements", "positions")):          # Molecule.from_arrays(elements, positions, ...): the first two may be positional
        if pn_ not in kw and len(mol.as_atom()[2]) > i_:
            kw[pn_] = mol.as_atom()[2][i_]
    # a local that names the composed index nodes[reorder] stands for that chain
    composed = {P.atom(kk).key() for kk, v in ev.defs.items() if kk[0] == "local" and v is not None and v.key() == "$nodes[$reorder]"}
    from .generic import index_chain as _ic

    def index_chain(t):          # noqa: F811
        root, ops = _ic(t)
        if not composed:
            return root, ops
        out = []
        for o in ([root] if root in composed else []) + ops:
            out.extend(["$nodes", "$reorder"] if o in composed else [o])
        return ("$nodes" if root in composed else root), (out[1:] if root in composed else out)
    if chk.want("R04.1"):
        # the image of an atom is its unit-cell site PLUS the accumulated cell shift (the shifts were accumulated with the sign of the
        # stored edge offsets; subtracting them puts every bonded neighbour on the wrong side)
        pv = kw.get("positions")
        sums = []
        if pv is not None:
            for a in find_atoms(pv, lambda a: a[0] == "call" and call_name(a) == ".to_cartesian" and a[2]):
                t = a[2][0]
                ta = t.as_atom()
                while ta and ta[0] == "sub":
                    t = ta[1]
                    ta = t.as_atom()
                sums.append(t)
        oksum = False
        if len(sums) == 1 and sums[0].is_poly() and len(sums[0].n) == 2 and all(c == 1 and len(m) == 1 and m[0][1] == 1 for m, c in sums[0].n.items()):
            keys = [P.atom(m[0][0]).key() for m in sums[0].n]
            oksum = any("frac_pos" in k_ for k_ in keys) and any("shifts" in k_ for k_ in keys)
        chk.ob("R04.1", CR, q, "an atom's position in the molecule is its unit-cell fractional position plus its accumulated cell shift", oksum,
               fingerprint="site-plus-shift", expected="to_cartesian((uc_frac + shifts)[nodes])", found=str(sums[0])[:120] if sums else None)
    if chk.want("R04.2"):
        per_atom = ["elements", "positions", "unit_cell_atoms", "asymmetric_unit_atoms", "asymmetric_unit_labels", "generator_symop"]
        roots = {"elements": "$uc_dict['element']", "asymmetric_unit_atoms": "$uc_dict['asym_atom']",
                 "generator_symop": "$uc_dict['symop']", "unit_cell_atoms": "$nodes", "asymmetric_unit_labels": "self.asymmetric_unit.labels"}
        # second accepted layout: the node list itself is sorted once, nodes = nodes[argsort(asym[nodes])], and every per-atom array is
        # gathered by that sorted list (exactly once, and by no other version of the list)
        n1 = [v for kk, v in ev.defs.items() if kk[0] == "local" and kk[1] == "nodes" and len(kk) > 2 and kk[2] == 1]
        sorted_nodes = bool(n1) and defs.get("reorder") is None and n1[0].key().startswith("$nodes[numpy.argsort($uc_dict['asym_atom'][$nodes]")
        if sorted_nodes:
            for k in per_atom:
                v = kw.get(k)
                root, ops = index_chain(v) if v is not None else (None, [])
                if root in ("$nodes'1",):
                    ops = ["$nodes'1"] + ops
                ok = v is not None and ops[-1:] == ["$nodes'1"] and ops.count("$nodes'1") == 1 and "$nodes" not in ops and root != "$nodes"
                if k in roots and ok and k != "unit_cell_atoms":
                    ok = root == roots[k]
                if k == "asymmetric_unit_labels" and ok:
                    ok = ops[0] == "$uc_dict['asym_atom']"
                if k == "positions" and ok:
                    ok = "$uc_dict['frac_pos']" in root and "shifts" in root
                chk.ob("R04.2", CR, q, f"per-atom argument '{k}' is gathered by the sorted node list exactly once (and by no other version of it)", ok,
                       fingerprint=f"chain:{k}", expected="X[nodes] with nodes = nodes[argsort(asym[nodes])]", found=f"{root} -> {ops}")
            chk.ob("R04.2", CR, q, "the node list is sorted by the asymmetric-unit index of its atoms", True, fingerprint="sorted-nodes", found=str(n1[0])[:120])
        for k in ([] if sorted_nodes else per_atom):
            v = kw.get(k)
            ok = False
            found = None
            if v is not None:
                root, ops = index_chain(v)
                if root == "$nodes":
                    ops = ["$nodes"] + ops
                found = f"{root} -> {ops}"
                ok = ops[-2:] == ["$nodes", "$reorder"] and ops.count("$nodes") == 1 and ops.count("$reorder") == 1
                if k in roots and ok:
                    ok = root == roots[k] if k != "unit_cell_atoms" else True
                if k == "asymmetric_unit_labels" and ok:
                    ok = ops[0] == "$uc_dict['asym_atom']"
                if k == "positions" and ok:
                    ok = "$uc_dict['frac_pos']" in root and "shifts" in root
            chk.ob("R04.2", CR, q, f"per-atom argument '{k}' is gathered by nodes, then reorder, exactly once", ok,
                   fingerprint=f"chain:{k}", expected="X[nodes][reorder]", found=found)
        ro = defs.get("reorder")
        if not sorted_nodes:
            chk.ob("R04.2", CR, q, "reorder sorts the molecule's atoms by their asymmetric-unit index",
                   ro is not None and ro.key() == "numpy.argsort($uc_dict['asym_atom'][$nodes])", found=str(ro))
    if chk.want("R04.3"):
        tr = [e for e in ev.events if e.kind == "call" and call_name(e.value.as_atom() or ()) == ".translate"]
        chk.need(len(tr) == 1, f"{q}: mol.translate not found")
        v = tr[0].extra["args"][0]
        a = v.as_atom()
        ok = False
        fc = None
        if a and call_name(a) == ".to_cartesian":
            diff = a[2][0]
            for t in find_atoms(diff, lambda t: t[0] == "call" and call_name(t) in ("numpy.fmod", "numpy.mod")):
                w = wrap_of(P.atom(t))
                if w is not None:
                    fc = w[0]
                    ok = diff == P.atom(t) - fc and w[1] >= 1
        chk.ob("R04.3", CR, q, "the translation is to_cartesian(wrapped - original) of the fractional centre", ok, found=str(v))
        chk.ob("R04.3", CR, q, "the centre is the molecule's centre of mass converted to fractional coordinates",
               fc is not None and fc.key() == "self.to_fractional($mol.center_of_mass)", found=str(fc))
        okobj = tr[0].target.key() == "$mol.translate"
        appm = [e for e in ev.events if e.kind == "call" and e.target is not None and e.target.key().endswith(".append") and "molecules" in e.target.key()]
        chk.ob("R04.3", CR, q, "the recentred molecule itself is what gets collected", okobj and len(appm) == 1 and appm[0].extra["args"][0].key() == "$mol")
    if chk.want("R04.4"):
        cc = defs.get("n_uc_mols")
        um = defs.get("uc_mols")
        okcc = cc is not None and "connected_components" in cc.key() and "directed=False" in cc.key() \
            and ("csgraph=$uc_graph" in cc.key() or "connected_components($uc_graph," in cc.key()) \
            and cc.key().endswith("[0]") and um is not None and um.key().endswith("[1]")
        chk.ob("R04.4", CR, q, "components come from an undirected connected_components of the bond graph (count, labels)", okcc, found=str(cc))
        loops = [l for l in ev.all_loops if l.kind == "range"]
        okl = bool(loops) and loops[0].lo == P.const(0) and loops[0].hi.key() == "$n_uc_mols"
        # the first binding of the node list selects the label; a later rebinding may only permute it (nodes = nodes[argsort(...)])
        nvers = sorted((kk[2], v) for kk, v in ev.defs.items() if kk[0] == "local" and kk[1] == "nodes" and len(kk) > 2 and isinstance(kk[2], int))
        nodes = nvers[0][1] if nvers else defs.get("nodes")
        perm_only = all(v.key().startswith("$nodes[numpy.argsort(") or v.key().startswith("$nodes'") and "[numpy.argsort(" in v.key() for _, v in nvers[1:])
        okn = nodes is not None and perm_only and nodes.key() == f"numpy.where((eq $uc_mols {loops[0].index}))[0]" if loops else False
        chk.ob("R04.4", CR, q, "one molecule per component label 0..n-1, made of exactly the atoms carrying that label", okl and okn,
               found=f"{loops[0].lo if loops else None}..{loops[0].hi if loops else None}; nodes={nodes}")
        bf = defs.get("ordered")
        chk.ob("R04.4", CR, q, "the breadth-first walk is undirected and starts at the component's first atom",
               bf is not None and "directed=False" in bf.key() and (("i_start=$nodes[0]" in bf.key() and "csgraph=$uc_graph" in bf.key())
                                                                     or "breadth_first_order($uc_graph, $nodes[0]," in bf.key()), found=str(bf))
        g = defs.get("uc_graph")
        chk.ob("R04.4", CR, q, "graph and edge cells come from unit_cell_connectivity, in that order",
               g is not None and g.key().endswith("[0]") and ".unit_cell_connectivity(" in g.key() and defs["edge_cells"].key().endswith("[1]"), found=str(g))


def r04_5(chk, repo, cr):
    """Elementwise == between arrays of two different molecules needs a length guard (or np.array_equal)."""
    sites = 0
    for rel, qual in ((CR, "Crystal.symmetry_unique_molecules"), (DM, "Dimer.calculate_transform"), (DM, "Dimer.__eq__")):
        mod = repo.module(rel)
        if qual not in mod.funcs:
            continue
        ev = mod.ev(qual)
        chk.saw(rel, qual)
        for e in ev.events:
            if e.value is None:
                continue
            for a in find_atoms(e.value, lambda a: a[0] in ("eq", "ne")):
                l, r = a[1], a[2]
                owners = []
                for side in (l, r):
                    owner = None
                    for t in find_atoms(side, lambda t: t[0] == "attr" and t[2] in ("properties", "atomic_numbers", "elements", "positions")):
                        owner = t[1].key()
                    owners.append(owner)
                if None in owners or owners[0] == owners[1]:
                    continue
                # only array-valued comparisons: wrapped in all/any.  The site is the reduction call itself: its event carries the
                # guards under which it is evaluated, short-circuit operands of the enclosing and/or included
                # (`len(a) != len(b) or not np.all(a.x == b.x)` reaches the comparison only with equal lengths)
                ea = e.value.as_atom()
                wrapped = e.kind == "call" and ea and ea[0] == "call" and ea[2] and call_name(ea) in ("numpy.all", "numpy.any", "all", "any") \
                    and P.atom(a).key() in ea[2][0].key()
                if not wrapped:
                    continue
                sites += 1
                guarded = False
                for c, pol in e.guards:
                    for t in find_atoms(c, lambda t: t[0] in ("eq", "ne")):
                        if all("len(" in s.key() or ".shape" in s.key() for s in (t[1], t[2])):
                            guarded = (t[0] == "eq") == pol
                chk.ob("R04.5", rel, qual, "an elementwise == between per-atom arrays of two molecules is dominated by a length check "
                       "(or replaced by np.array_equal)", guarded, node=e.node, fingerprint=f"eq:{owners}",
                       expected="len(a) == len(b) guard, or numpy.array_equal(a, b)", found=str(P.atom(a))[:160])
            for t in find_atoms(e.value, lambda t: t[0] == "call" and call_name(t) == "numpy.array_equal"):
                owners = set()
                for x in t[2][:2]:
                    for u in find_atoms(x, lambda u: u[0] == "attr" and u[2] in ("properties", "atomic_numbers", "elements", "positions")):
                        owners.add(u[1].key())
                if len(owners) == 2:
                    sites += 1
                    chk.ob("R04.5", rel, qual, "per-atom arrays of two molecules are compared with numpy.array_equal (length-safe)",
                           True, node=e.node, fingerprint=f"array_equal:{sorted(owners)}")
            # tuple(mol.properties[k]) in {tuple(m.properties[k]): ...}: compared as dictionary keys (tuples of any two lengths compare)
            if e.kind == "test":
                for t in find_atoms(e.value, lambda t: t[0] == "in" and t[1].as_atom() and call_name(t[1].as_atom()) == "tuple"):
                    if any(True for _ in find_atoms(t[1], lambda u: u[0] == "attr" and u[2] in ("properties", "atomic_numbers", "elements", "positions"))):
                        sites += 1
                        chk.ob("R04.5", rel, qual, "per-atom arrays of two molecules are compared as tuples used as dictionary keys (length-safe)",
                               True, node=e.node, fingerprint="tuple-key")
    chk.need(sites >= 2, f"expected >= 2 cross-molecule array comparisons, found {sites}")


# ------------------------------------------------------------------------------------------------ R04.7
def coverage_by_construction(chk, cr, ev, q):
    """The unique molecules cover every asymmetric-unit atom exactly once because (a) the result starts empty, (b) a molecule is
    added only in the scan over all unit-cell molecules, in the same step that marks its parent sites in the coverage mask and only
    when they were not all marked before, (c) that scan is not skipped on any path."""
    from ..symex import obj_init
    setm = [e for e in ev.events if e.kind == "call" and call_name(e.value.as_atom() or ()) == "setattr" and len(e.extra["args"]) == 3
            and string_value(e.extra["args"][1]) == "_symmetry_unique_molecules"]
    stm = [e for e in ev.events if e.kind == "store" and e.target.key() == "self._symmetry_unique_molecules"]
    chk.need(len(setm) + len(stm) == 1, f"{q}: memo store of the unique molecules not found")
    res = setm[0].extra["args"][2] if setm else stm[0].value
    ra = res.as_atom()
    chk.need(ra and ra[0] == "obj", f"{q}: the list of unique molecules is not a local list")
    init = obj_init(res)
    empty = init.key() in ("(tuple ())", "list()")
    apps = [e for e in ev.events if e.kind == "call" and e.target is not None and e.target.key() == f"{res}.append"]
    memo_guard = lambda c: "hasattr(self" in c.key() or "getattr(self, '_symmetry_unique_molecules'" in c.key() or "(try " in c.key()
    ok_steps = bool(apps)
    why = []
    for e in apps:
        if not e.loops:
            ok_steps = False
            why.append("append outside the scan")
            continue
        lp = e.loops[-1]
        marks = [x for x in ev.events if x.kind == "store" and x.loops and x.loops[-1].k == lp.k and x.value.key() == "True"
                 and tuple((c.key(), p) for c, p in x.guards) == tuple((c.key(), p) for c, p in e.guards)
                 and "asymmetric_unit_atoms" in x.target.key()]
        test_new = any((not p) and call_name(c.as_atom() or ()) == "numpy.all" and "asymmetric_unit_atoms" in c.key() for c, p in e.guards)
        it = lp.iter.key() if lp.iter is not None else ""
        over_all = "unit_cell_molecules(" in it
        outer = [c for c, p in e.guards if not memo_guard(c) and not any(l.k == lp.k for l in ()) and "asymmetric_unit_atoms" not in c.key()]
        if not marks:
            why.append("the appended molecule's parent sites are not marked in the same step")
        if not test_new:
            why.append("append not restricted to molecules with unmarked parent sites")
        if not over_all:
            why.append(f"scan is over {it[:60]}, not all unit-cell molecules")
        if outer:
            why.append(f"scan only runs under {[str(c)[:50] for c in outer]}")
        ok_steps = ok_steps and bool(marks) and test_new and over_all and not outer
    # the scan may stop early only when every parent site is marked: any other stopping rule (a running count of atoms, a number of
    # molecules) can be met before the last independent molecule has been seen
    for e in apps[:1]:
        if not e.loops:
            continue
        lp = e.loops[-1]
        marks_ = [x for x in ev.events if x.kind == "store" and x.loops and x.loops[-1].k == lp.k and x.value.key() == "True" and "asymmetric_unit_atoms" in x.target.key()]
        mask_key = marks_[0].target.as_atom()[1].key() if marks_ else None
        early = [x for x in ev.events if x.kind in ("break", "return") and x.loops and x.loops[-1].k == lp.k]
        bad = []
        for x in early:
            okb = mask_key is not None and any(p and call_name(c.as_atom() or ()) in ("numpy.all", "all") and c.as_atom()[2] and c.as_atom()[2][0].key() == mask_key
                                               for c, p in x.guards)
            if not okb:
                bad.append("line %s: stops under %s" % (x.lineno, [("" if p else "not ") + str(c)[:60] for c, p in x.guards if (c.key(), p) not in {(c2.key(), p2) for c2, p2 in e.guards}][-2:]))
        chk.ob("R04.7", CR, q, "the scan over the unit-cell molecules stops early only when every asymmetric-unit site is marked as covered", not bad,
               fingerprint="scan-stop", expected="if np.all(covered): break", found=bad[:2])
    chk.ob("R04.7", CR, q, "coverage by construction: the result starts empty; molecules are added only in an unconditional scan over all unit-cell "
           "molecules, each together with marking its parent sites and only if those were not all marked", empty and ok_steps, node=(setm or stm)[0].node,
           fingerprint="coverage", expected="molecules = []; for mol in sorted(uc_molecules): if all marked: continue; mark; append",
           found=(f"initial value {str(init)[:80]}; " if not empty else "") + "; ".join(sorted(set(why))))


def r04_7(chk, cr):
    """Which per-atom property decides that a unit-cell molecule is an image of a unique molecule?

    Parent-site indices identify the asymmetric-unit atoms a molecule is built from; labels and elements do not
    (nothing makes labels unique, and two independent molecules may be chemically identical)."""
    q = "Crystal.symmetry_unique_molecules"
    ev = cr.ev(q)
    chk.saw(CR, q)
    coverage_by_construction(chk, cr, ev, q)
    stores = [e for e in ev.events if e.kind == "store" and e.target.key().endswith(".properties['asym_mol_idx']")]
    chk.need(len(stores) >= 2, f"{q}: expected the numbering store and the image-labelling store of asym_mol_idx")
    numbering = [e for e in stores if e.value.as_atom() and e.value.as_atom()[0] == "lv"]
    chk.ob("R04.7", CR, q, "unique molecules are numbered by the enumerate index of the returned list", len(numbering) == 1 and
           numbering[0].loops[-1].kind == "enumerate" and numbering[0].value.key() == numbering[0].loops[-1].index.key(),
           node=numbering[0].node if numbering else None, fingerprint="numbering", found=[str(e.value) for e in numbering])
    # the index written into a molecule is its position in the list that is kept and handed out: the list is not re-ordered, shortened or
    # extended after the numbering, and the memo and the return value are that very list (not a sorted copy of it)
    if len(numbering) == 1 and numbering[0].loops[-1].iter is not None:
        lst = numbering[0].loops[-1].iter.key()
        at = ev.events.index(numbering[0])
        REORDER = (".sort", ".reverse", ".insert", ".pop", ".remove", ".append", ".extend", ".clear")
        later = [e for e in ev.events[at + 1:] if e.kind == "call" and e.target is not None and e.target.key().startswith(lst + ".")
                 and e.target.key()[len(lst):] in REORDER]
        later += [e for e in ev.events[at + 1:] if e.kind in ("delete", "store", "aug") and e.target is not None and e.target.key().startswith(lst + "[")]
        handed = [e for e in ev.events if e.kind == "return" and e.value is not None and not any(pol and "hasattr" in c.key() for c, pol in e.guards)
                  and "_symmetry_unique_molecules" not in e.value.key()]           # the memo's own early return hands out the stored list
        handed_ok = bool(handed) and all(e.value.key() == lst for e in handed)
        memo = [e for e in ev.events if e.kind == "call" and call_name(e.value.as_atom() or ()) == "setattr" and e.extra.get("args")
                and len(e.extra["args"]) == 3 and "_symmetry_unique_molecules" in e.extra["args"][1].key()]
        memo += [e for e in ev.events if e.kind == "store" and e.target.key() == "self._symmetry_unique_molecules"]
        memo_ok = all((e.extra["args"][2] if e.kind == "call" else e.value).key() == lst for e in memo)
        chk.ob("R04.7", CR, q, "the numbered list is the list that is memoised and returned, and it is not re-ordered or resized after the numbering "
               "(asym_mol_idx stays the position of the molecule in symmetry_unique_molecules())", not later and handed_ok and memo_ok,
               node=(later[0].node if later else numbering[0].node), fingerprint="numbering-stable",
               expected=f"no sort/reverse/insert/pop/remove/append on {lst} after the numbering loop; return {lst}",
               found=[str(e.value)[:100] for e in later] or [str(e.value)[:80] for e in handed if e.value.key() != lst]
               or [str(e.value)[:80] for e in memo])
    for e in stores:
        if e in numbering:
            continue
        # property names that decide the match: in the dominating guards and in the stored value
        names = set()
        terms = [c for c, pol in e.guards if pol] + [e.value]
        # the matched molecule may first be bound to a variable (parent = asym_mol under the match test) and used after the search loop
        carried = {a[1] for a in find_atoms(e.value, lambda a: a[0] in ("after", "lc", "maybe", "tryphi") and isinstance(a[1], str))}
        for e2 in ev.events:
            if e2.kind == "assign" and e2.name in carried and e2.loops:
                terms += [c for c, pol in e2.guards if pol]
        for t in terms:
            for a in find_atoms(t, lambda a: a[0] == "sub" and a[1].key().endswith(".properties") and len(a[2]) == 1):
                sv = a[2][0].as_atom()
                if sv and sv[0] == "str":
                    names.add(sv[1])
        keyed = names - {"asym_mol_idx"}
        if not keyed:
            raise AnalysisError(f"{q}: the test that matches an image to its unique molecule was not found")
        chk.ob("R04.7", CR, q, "an image is matched to its unique molecule by equality of the parent-site indices", keyed == {"asymmetric_unit_atoms"},
               node=e.node, fingerprint="match-key", expected="asymmetric_unit_atoms", found=sorted(keyed))
