"""C01 — unit-cell contents are the symmetry orbit: enumeration, wrapping, merging, aligned bookkeeping."""
from __future__ import annotations

import ast

from ..core import AnalysisError
from ..poly import P
from ..symex import Ev, find_atoms, call_name, seq_items, obj_init
from ..tables import sgmodel as M
from .generic import string_value, dict_items, index_chain
from .c11 import is_wrap

CR = "crystal/crystal.py"
SG = "crystal/space_group.py"
NONE = P.atom(("const", None))


def wrap_of(term: P):
    """If term is a recognised wrap idiom return the wrapped operand, else None (A.1)."""
    a = term.as_atom()
    if a and a[0] == "call" and call_name(a) in ("numpy.fmod", "numpy.mod", "numpy.remainder") and len(a[2]) == 2 \
            and a[2][1] == P.const(1):
        x = a[2][0]
        if x.is_poly():
            c = x.n.get((), 0)
            if c >= 0 and c.denominator == 1:
                return x - c, int(c)
    if a and a[0] == "bin" and a[1] == "Mod" and a[3] == P.const(1):
        return a[2], 0
    return None


def total_wrap(ev, tdef: P, tatom: P):
    """t = fmod(x, 1); t[t < 0] += 1; t[t >= 1] = 0   ->  x  (a wrap into [0,1) that is right for every finite x), else None."""
    from ..symex import obj_init
    init = obj_init(tdef).as_atom()
    # the same three steps written out of place:  b = fmod(x, 1); a = where(b < 0, b + 1, b); t = where(a >= 1, 0, a)
    if init and init[0] == "call" and call_name(init) == "numpy.where" and len(init[2]) == 3:
        def resolve(t):
            ta = t.as_atom()
            return ev.defs.get(ta, t) if ta and ta[0] == "local" else t
        c2, z, a_ = init[2]
        a_r = resolve(a_).as_atom()
        if z == P.const(0) and c2.key() == f"(le 1 {a_})" and a_r and a_r[0] == "call" and call_name(a_r) == "numpy.where" and len(a_r[2]) == 3:
            c1, up_, b_ = a_r[2]
            b_r = resolve(b_).as_atom()
            if c1.key() == f"(lt {b_} 0)" and up_ == b_ + 1 and a_r[2][2].key() == b_.key() and b_r and b_r[0] == "call" \
                    and call_name(b_r) == "numpy.fmod" and len(b_r[2]) == 2 and b_r[2][1] == P.const(1):
                return b_r[2][0]
        return None
    if not (init and init[0] == "call" and call_name(init) in ("numpy.fmod",) and len(init[2]) == 2 and init[2][1] == P.const(1)):
        return None
    x = init[2][0]
    t = tatom.key()
    up = zero = False
    for e in ev.events:
        if e.kind == "aug" and e.target.key() == f"{t}[(lt {t} 0)]" and e.value == P.const(1) and (e.op in (None, "Add", "+")):
            up = True
        if e.kind == "store" and e.target.key() == f"{t}[(le 1 {t})]" and e.value == P.const(0) and up:
            zero = True
    return x if (up and zero) else None


def run(chk):
    repo = chk.repo
    cr = repo.module(CR)
    sg = repo.module(SG)
    chk.explanation = ("SpaceGroup.apply_all_symops and Crystal.unit_cell_atoms: block layout of the orbit buffers as slice "
                       "polynomials, identity-first ordering, pairing of coordinates and generator codes, op-major alignment "
                       "of all per-atom columns and one mask applied once, wrap-before-merge data flow, strictness and "
                       "direction of the merge bookkeeping, and agreement of the produced keys with all consumers in the package.")
    chk.rule("R01.1", "every operation once, identity first: block i of coordinates and generator codes come from the same operation", 8)
    chk.rule("R01.2", "aligned columns: every per-atom column is op-major and filtered by the same mask exactly once", 9)
    chk.rule("R01.3", "wrap before merge: the KD-tree, frac_pos and cart_pos all see one wrapped array with range [0,1)", 4)
    chk.rule("R01.4", "merge bookkeeping: strict index order, survivor receives the absorbed occupancy, exactly the absorbed site is masked", 4)
    chk.rule("R01.5", "key agreement: the dictionary offers every key its consumers read", 10)
    if chk.want("R01.1"):
        r01_1(chk, sg, cr)
    if chk.want("R01.2") or chk.want("R01.3") or chk.want("R01.4"):
        r01_234(chk, cr)
    if chk.want("R01.5"):
        r01_5(chk, repo, cr)
    chk.rule("R01.7", "Cartesian coordinates are consistent with the cell: to_cartesian / to_fractional are right-multiplications by the direct / "
                      "inverse matrix for every cell, however it was specified (= C12 R12.5)", 4)
    if chk.want("R01.7"):
        from ..inherit import inherit
        inherit(chk, "R01.7", "c12", ["R12.5"])
    chk.rule("R01.8", "the image of a site under an operation is R.x + t: SymmetryOperation.apply, which fills every block of the orbit buffer, "
                      "is the same affine map on (N,3), homogeneous (N,4) and Cartesian input (= C11 R11.6)", 3)
    if chk.want("R01.8"):
        from ..inherit import inherit
        inherit(chk, "R01.8", "c11", ["R11.6"])
    chk.rule("R01.10", "the occupancies that are merged are the ones that were read: the keys AsymmetricUnit.from_records asks an atom record for "
                       "are the keys the SHELX atom-line parser writes (= C10 R10.2 record-keys)", 1)
    if chk.want("R01.10"):
        from ..inherit import inherit
        inherit(chk, "R01.10", "c10", ["R10.2"], fingerprints=lambda f: "record-keys" in f)
    chk.rule("R01.6", "memo discipline of class Crystal (= C14 R14.2): every state-changing method drops every memoised quantity, including any newly introduced cache", 2)
    if chk.want("R01.6"):
        from .c14 import crystal_memo_rule
        crystal_memo_rule(chk, "R01.6")
    chk.assume("which images coincide (KD-tree distances within the tolerance) and float wrap behaviour at x = -K are not decided")
    chk.assume("pair iteration of the sparse distance matrix is row-major, so chains of coincident images sum into the lowest index")
    chk.assume("the operation list is the group (C02) and the integer codes decode to the operations (C11 R11.1-R11.5)")


def _identity_search(u: P, ops_keys):
    """u = next((i for i, s in enumerate(OPS) if s.integer_code == IDENTITY), 0): the index of the identity found by a generator
    instead of a loop with break."""
    a = u.as_atom()
    if not (a and a[0] == "call" and call_name(a) == "next" and a[2]):
        return False
    c = a[2][0].as_atom()
    if not (c and c[0] == "comp" and c[1] == "GeneratorExp" and len(c) == 4 and len(c[3]) == 1):
        return False
    kind, it, conds = c[3][0]
    ia = it.as_atom()
    if kind != "enumerate" or not (ia and ia[0] == "call" and ia[2] and ia[2][0].key() in ops_keys) or len(ia[2]) > 1 or (len(ia) > 3 and ia[3]):
        return False
    idx = c[2]
    if not (idx.as_atom() and idx.as_atom()[0] == "lv"):
        return False
    op = P.atom(("sub", ia[2][0], (idx,)))
    return len(conds) == 1 and conds[0].key() in (f"(eq {op}.integer_code {M.IDENTITY})", f"(eq {M.IDENTITY} {op}.integer_code)", f"{op}.is_identity()")


def _found_or_first(u: P):
    """u is what a search loop left behind, or 0 / None on the ways that found nothing: every leaf of the ite tree is the loop's
    result variable, the constant 0, or None (tested away); no arithmetic on the index."""
    leaves, todo = [], [u]
    while todo:
        t = todo.pop()
        a = t.as_atom()
        if a and a[0] == "ite":
            todo.extend((a[2], a[3]))
        else:
            leaves.append(t)
    afters = {t.key() for t in leaves if t.as_atom() and t.as_atom()[0] == "after"}
    rest = [t for t in leaves if not (t.as_atom() and t.as_atom()[0] == "after")]
    return len(afters) == 1 and all(t.key() in ("0", "None") for t in rest)


def _identity_first_partition(ev, ops_key="self.symmetry_operations"):
    """other = ops[:u] + ops[u+1:] with u located by the identity test -> (ok, detail)."""
    ops_keys = {ops_key} | {str(P.atom(k)) for k, v in ev.defs.items() if k[0] == "local" and v.key() == ops_key}
    tests = [e for e in ev.events if e.kind == "test" and e.loops]
    oku = any((f"(eq {M.IDENTITY} " in e.value.key() and ".integer_code" in e.value.key()) or ".is_identity()" in e.value.key() for e in tests)
    sl = []
    for e in ev.events:
        if e.value is None:
            continue
        for a in find_atoms(e.value, lambda a: a[0] == "sub" and a[1].key() in ops_keys):
            s = a[2][0].as_atom()
            if s and s[0] == "slice":
                sl.append((s[1], s[2]))
    sl = list({(a.key(), b.key()): (a, b) for a, b in sl}.values())
    okpart = False
    if len(sl) == 2:
        heads = [x for x in sl if x[0].key() == "None"]
        tails = [x for x in sl if x[1].key() == "None"]
        if len(heads) == 1 and len(tails) == 1:
            u = heads[0][1]
            searched = _identity_search(u, ops_keys)
            oku = oku or searched
            okpart = tails[0][0] == u + 1 and (searched or _found_or_first(u))
            if not searched:
                # the index the loop leaves behind is set where the identity test HOLDS (not where it fails), to the position of that operation
                afters = [a for a in find_atoms(u, lambda a: a[0] == "after")]
                for af in afters:
                    sets = [e for e in ev.events if e.kind == "assign" and e.name == af[1] and e.loops and e.loops[-1].k == af[2]]
                    for e in sets:
                        c, pol = e.guards[-1] if e.guards else (None, None)
                        li = e.loops[-1]
                        hit = c is not None and pol and ((c.as_atom() or ("",))[0] == "eq" and f"{M.IDENTITY}" in c.key() and ".integer_code" in c.key()
                                                         or c.key().endswith(".is_identity()"))
                        at_index = li.index is not None and e.value.key() == li.index.key() and li.kind == "enumerate" and li.lo in (None, P.const(0))
                        oku = oku and bool(hit) and at_index
                    oku = oku and bool(sets)
    return oku, okpart, [(str(a)[:80], str(b)[:80]) for a, b in sl]


def _repeat_layout(ev, n):
    """generator = np.repeat(np.array([IDENTITY] + [s.integer_code for s in OTHER]), n): block 0 carries the identity's code and block i
    the code of OTHER[i-1], every block n entries long  ->  (name, first, normalised element key, list key, count)."""
    for e in ev.events:
        if e.kind != "assign" or e.value is None:
            continue
        a = e.value.as_atom()
        if not (a and a[0] == "call" and call_name(a) == "numpy.repeat" and len(a[2]) == 2):
            continue
        arr = a[2][0].as_atom()
        if arr and arr[0] == "call" and call_name(arr) in ("numpy.array", "numpy.asarray") and arr[2]:
            arr = arr[2][0].as_atom()
        if not (arr and arr[0] == "concat" and len(arr[1]) == 2):
            continue
        head, tail = seq_items(arr[1][0]), _comp_of(arr[1][1])
        if head is None or len(head) != 1 or tail is None:
            continue
        return e.name, head[0], tail[0], tail[1], a[2][1]
    return None


def r01_1(chk, sg, cr):
    from .generic import dtype_inheritance_sites
    q = "SpaceGroup.apply_all_symops"
    from .generic import asarray_of_params_hook
    ev = sg.ev(q, opaque={"other_symops", "symops"}, call_hook=asarray_of_params_hook({a.arg for a in sg.funcs[q].args.args}))
    chk.saw(SG, q)
    coords = P.name(ev.param_names[1])
    n = P.atom(("call", P.name("len"), (coords,)))
    nops = P.atom(("call", P.name("len"), (P.name("self"),)))
    # dtype: the coordinate buffer must not inherit an integer dtype from the caller's array
    for e, why in dtype_inheritance_sites(ev, {coords.key()}):
        chk.ob("R01.1", SG, q, "the output coordinate buffer has a floating dtype of its own (integer input must not truncate the images)", False,
               node=e.node, fingerprint="dtype", expected="np.empty((n, 3)) or an explicit float dtype", found=why)
    chk.ob("R01.1", SG, q, "no output buffer inherits its dtype from the caller's coordinates", not dtype_inheritance_sites(ev, {coords.key()}),
           fingerprint="dtype-ok")
    bufs = {}
    for e in ev.events:
        if e.kind == "assign" and e.value.as_atom() and e.value.as_atom()[0] == "obj":
            init = e.value.as_atom()[3].as_atom()
            if init and call_name(init) in ("numpy.empty", "numpy.zeros"):
                shape = init[2][0]
                it = seq_items(shape)
                bufs[e.name] = (e.value, it[0] if it else shape)
                if it and len(it) == 2:
                    chk.ob("R01.1", SG, q, f"buffer '{e.name}' has one row of three coordinates per image", it[1] == P.const(3), node=e.node,
                           fingerprint=f"cols:{e.name}", expected="(nsites * len(group), 3)", found=str(shape))
    form_b = not bufs and any(k[1] == "symops" for k in ev.defs)
    if form_b:
        return r01_1_ordered(chk, sg, cr, ev, q, coords, n)
    rep = _repeat_layout(ev, n) if len(bufs) == 1 else None
    chk.need(len(bufs) == 2 or rep is not None, f"{q}: expected two output buffers, found {list(bufs)}")
    # len(self) is len(self.symmetry_operations) (SpaceGroup.__len__), also through a local bound to that list
    ops_attr = P.atom(("attr", P.name("self"), "symmetry_operations"))
    nops_alt = [nops, P.atom(("call", P.name("len"), (ops_attr,)))] + \
        [P.atom(("call", P.name("len"), (P.atom(k),))) for k, v in ev.defs.items() if v.key() == ops_attr.key()]
    len_fn = sg.funcs.get("SpaceGroup.__len__")
    len_ok = len_fn is not None and "self.symmetry_operations" in ast.unparse(len_fn)
    for name, (obj, size) in bufs.items():
        chk.ob("R01.1", SG, q, f"buffer '{name}' holds nsites * len(group) entries",
               size == n * nops or (len_ok and any(size == n * alt for alt in nops_alt)), fingerprint=f"size:{name}",
               expected=str(n * nops), found=str(size))
    stores = [e for e in ev.events if e.kind == "store" and e.target.as_atom()[0] == "sub"]
    first = [e for e in stores if not e.loops]
    loop = [e for e in stores if e.loops]
    # batched layout: blocks 1.. are written by one store  buf[n:] = ...  (no loop over the operations)
    batched = [e for e in first if (e.target.as_atom()[2][0].as_atom() or ("",))[0] == "slice"
               and e.target.as_atom()[2][0].as_atom()[1] == n and e.target.as_atom()[2][0].as_atom()[2].key() == "None"]
    first = [e for e in first if e not in batched]
    ident_ok = {}
    for e in first:
        t = e.target.as_atom()
        s = t[2][0].as_atom()
        name = t[1].as_atom()[1]
        ident_ok[name] = bool(s and s[0] == "slice" and (s[1] == P.const(0) or s[1].key() == "None") and s[2] == n) and \
            (e.value.key() == coords.key() or e.value == P.const(M.IDENTITY))
    if rep is not None:
        ident_ok[rep[0]] = rep[1] == P.const(M.IDENTITY)
    chk.ob("R01.1", SG, q, "block 0 holds the input coordinates with the identity's code as generator",
           len(ident_ok) == 2 and all(ident_ok.values()), found=str(ident_ok))
    oku, okpart, sl = _identity_first_partition(ev)
    chk.ob("R01.1", SG, q, "the identity is located by its packed code among the group's operations", oku)
    other = [v for k, v in ev.defs.items() if k[1] == "other_symops"]
    chk.need(other, f"{q}: list of the remaining operations not found")
    ov = other[-1]
    joined = ov.as_atom() is not None or (ov.is_poly() and all(c == 1 for c in ov.n.values()))       # a + b of two lists, not a - b
    chk.ob("R01.1", SG, q, "the remaining operations are ops[:u] and ops[u+1:] (each non-identity operation exactly once)", okpart and joined, found=sl)
    if rep is not None:
        # one block per entry of [identity] + other, each repeated n times: 1 + (len(ops) - 1) blocks when the partition holds
        chk.ob("R01.1", SG, q, f"buffer '{rep[0]}' holds nsites * len(group) entries", okpart and rep[4] == n, fingerprint=f"size:{rep[0]}",
               expected=f"np.repeat(<1 + len(other) codes>, {n})", found=f"repeat count {rep[4]}")
    if not loop and len(batched) == 2:
        r01_1_batched(chk, q, batched, coords, n)
        ret = seq_items(ev.returns[-1].value)
        okret = bool(ret and len(ret) == 2 and ret[0].as_atom()[1] == "generator_symop" and ret[1].as_atom()[1] == "transformed")
        return _consumer_unpack(chk, sg, cr, q, okret, ev)
    chk.need(len(loop) == (1 if rep is not None else 2), f"{q}: expected two block stores in the loop")
    li = loop[0].loops[-1]
    chk.ob("R01.1", SG, q, "blocks are numbered from 1 (enumerate(..., start=1))", li.kind == "enumerate" and li.lo == P.const(1),
           found=f"{li.kind} start={li.lo}")
    i = li.index
    slices = {}
    vals = {}
    for e in loop:
        t = e.target.as_atom()
        s = t[2][0].as_atom()
        name = t[1].as_atom()[1]
        slices[name] = (s[1], s[2]) if s and s[0] == "slice" else None
        vals[name] = e.value
    same = len({(str(a), str(b)) for a, b in slices.values()}) == 1 and (rep is None or rep[4] == n)
    lo, hi = list(slices.values())[0]
    chk.ob("R01.1", SG, q, "coordinate block and generator block of operation i use the same slice [i*n : (i+1)*n]",
           same and lo == i * n and hi == (i + 1) * n, expected=f"[{i * n}, {(i + 1) * n})",
           found={k: (str(a), str(b)) for k, (a, b) in slices.items()})
    olist = P.atom([k for k in ev.defs if k[1] == "other_symops"][-1])
    op = P.atom(("sub", olist, (i - 1,)))
    vc = [v for v in vals.values() if "integer_code" not in v.key()]
    vg = [v for v in vals.values() if "integer_code" in v.key()]
    if rep is not None:
        # the codes are listed in the order of the same list the coordinate loop enumerates
        okg = li.iter is not None and li.iter.key() == olist.key() and rep[3] == olist.key() and rep[2] == f"{olist}[_it].integer_code"
    else:
        okg = len(vg) == 1 and vg[0] == P.atom(("attr", op, "integer_code"))
    okpair = len(vc) == 1 and okg and \
        vc[0].as_atom() and vc[0].as_atom()[0] == "call" and (vc[0].as_atom()[1].key() == op.key() or
                                                              vc[0].as_atom()[1].key() == f"{op}.apply") \
        and vc[0].as_atom()[2][0].key() == coords.key()
    chk.ob("R01.1", SG, q, "block i holds s(coordinates) and s.integer_code for the same operation s = other[i-1]", bool(okpair),
           found={k: str(v) for k, v in vals.items()})
    ret = seq_items(ev.returns[-1].value)
    if rep is not None:
        rv = [e.value for e in ev.events if e.kind == "assign" and e.name == rep[0]][-1]
        okret = bool(ret and len(ret) == 2 and ret[0].key() == rv.key() and ret[1].as_atom() and ret[1].as_atom()[0] == "obj"
                     and ret[1].as_atom()[1] in bufs)
    else:
        okret = bool(ret and len(ret) == 2 and ret[0].as_atom()[1] == "generator_symop" and ret[1].as_atom()[1] == "transformed")
    _consumer_unpack(chk, sg, cr, q, okret, ev)


def _noit(k: str) -> str:
    import re
    return re.sub(r"_it#\d+", "_it", k)


def _comp_of(term: P):
    """numpy.array([ELT for s in LIST]) / [ELT for s in LIST]  ->  (normalised ELT key, LIST key) or None."""
    a = term.as_atom()
    if a and a[0] == "call" and call_name(a) in ("numpy.array", "numpy.asarray", "numpy.stack") and a[2]:
        a = a[2][0].as_atom()
    if a and a[0] == "comp" and a[1] in ("ListComp", "GeneratorExp") and len(a[3]) == 1 and not a[3][0][2]:
        return _noit(a[2].key()), a[3][0][1].key()
    return None


def r01_1_batched(chk, q, batched, coords, n):
    """transformed[n:] = (coords @ ROT + TR[:, None, :]).reshape(-1, 3); generator[n:] = repeat([s.integer_code ...], n):
    ROT[k] must be the transpose of operation k's rotation (x -> x R^T + t, SymmetryOperation.apply), the three stacks
    run over one list, and both buffers are operation-major."""
    gen = [e for e in batched if "integer_code" in e.value.key()]
    crd = [e for e in batched if e not in gen]
    chk.need(len(gen) == 1 and len(crd) == 1, f"{q}: batched stores are not one coordinate and one generator store")
    g = gen[0].value.as_atom()
    gc = _comp_of(g[2][0]) if g and g[0] == "call" and call_name(g) == "numpy.repeat" and len(g[2]) == 2 else None
    lst = gc[1] if gc else None
    chk.ob("R01.1", SG, q, "generator codes are operation-major: repeat([s.integer_code for s in other], nsites)",
           bool(gc) and gc[0] == f"{lst}[_it].integer_code" and g[2][1] == n, node=gen[0].node, fingerprint="batched:codes",
           found=str(gen[0].value)[:200])
    v = crd[0].value
    a = v.as_atom()
    shaped = False
    if a and a[0] == "call" and isinstance(a[1], P) and (a[1].as_atom() or ("",))[0] == "attr" and a[1].as_atom()[2] == "reshape":
        args = seq_items(a[2][0]) if len(a[2]) == 1 and seq_items(a[2][0]) else list(a[2])
        shaped = len(args) == 2 and args[0] == P.const(-1) and args[1] == P.const(3)
        v = a[1].as_atom()[1]
    chk.ob("R01.1", SG, q, "the (operation, site, 3) stack is flattened operation-major by reshape(-1, 3)", shaped, node=crd[0].node,
           fingerprint="batched:reshape", found=str(crd[0].value)[:120])
    mm = find_atoms(v, lambda x: x[0] == "matmul")
    rot_ok = tr_ok = same_list = False
    detail = ""
    if len(mm) == 1 and len(mm[0][1]) == 2 and mm[0][1][0].key() == coords.key():
        R = mm[0][1][1]
        outer_T = False
        ra = R.as_atom()
        if ra and ra[0] == "call" and ((call_name(ra) in ("numpy.swapaxes",) and [x.key() for x in ra[2][1:]] in (["1", "2"], ["2", "1"], ["-1", "-2"], ["-2", "-1"]))
                                        or (call_name(ra) == "numpy.transpose" and len(ra[2]) == 2 and [x.key() for x in (seq_items(ra[2][1]) or [])] == ["0", "2", "1"])):
            outer_T, R = True, ra[2][0]
        elif ra and ra[0] == "call" and isinstance(ra[1], P) and (ra[1].as_atom() or ("",))[0] == "attr" and ra[1].as_atom()[2] in ("transpose", "swapaxes"):
            ks = [x.key() for x in ((seq_items(ra[2][0]) if len(ra[2]) == 1 and seq_items(ra[2][0]) else list(ra[2])))]
            if (ra[1].as_atom()[2] == "transpose" and ks == ["0", "2", "1"]) or (ra[1].as_atom()[2] == "swapaxes" and sorted(ks) in (["1", "2"], ["-1", "-2"])):
                outer_T, R = True, ra[1].as_atom()[1]
        rc = _comp_of(R)
        if rc:
            elt, rl = rc
            per_T = elt in (f"(T {rl}[_it].rotation)", f"numpy.transpose({rl}[_it].rotation)")
            plain = elt == f"{rl}[_it].rotation"
            rot_ok = (per_T and not outer_T) or (plain and outer_T)
            detail = f"stack of {elt}" + (" with the last two axes exchanged" if outer_T else "")
            rest = v - P.atom(mm[0])
            ta = rest.as_atom()
            if ta and ta[0] == "sub":
                tc = _comp_of(ta[1])
                idx = [i.key() for i in ta[2]]
                tr_ok = bool(tc) and tc[0] == f"{tc[1]}[_it].translation" and len(idx) == 3 and idx[1] in ("numpy.newaxis", "None") \
                    and idx[0].startswith("(slice None None") and idx[2].startswith("(slice None None")
                same_list = bool(tc) and tc[1] == rl == lst
    chk.ob("R01.1", SG, q, "image k is coordinates . R_k^T + t_k (the map SymmetryOperation.apply computes): the stacked matrices are the transposed rotations",
           rot_ok, node=crd[0].node, fingerprint="batched:rotation", expected="np.array([s.rotation.T for s in other]) (or the stack with its last two axes exchanged)",
           found=detail or str(v)[:200])
    chk.ob("R01.1", SG, q, "translation k is added to every site of block k (t[:, None, :])", tr_ok, node=crd[0].node, fingerprint="batched:translation",
           found=str(v)[:200])
    chk.ob("R01.1", SG, q, "rotations, translations and codes are taken from one and the same list of operations", same_list, fingerprint="batched:one-list")


def _consumer_unpack(chk, sg, cr, q, okret, ev):
    cv = cr.ev("Crystal.unit_cell_atoms", opaque={"sym", "uc_pos"})
    sym = [v for k, v in cv.defs.items() if k[1] == "sym"]
    pos = [v for k, v in cv.defs.items() if k[1] == "uc_pos"]
    okun = bool(sym and pos and sym[0].key().endswith("[0]") and pos[0].key().endswith("[1]") and "apply_all_symops" in sym[0].key())
    chk.ob("R01.1", SG, q, "the function returns (generator codes, coordinates) and unit_cell_atoms unpacks them in that order",
           okret and okun, found=f"{ev.returns[-1].value} / {sym} {pos}")
    so = chk.repo.module("crystal/symmetry_operation.py")
    c = so.ev("SymmetryOperation.__call__")
    chk.ob("R01.1", "crystal/symmetry_operation.py", "SymmetryOperation.__call__", "calling an operation applies it",
           c.returns and c.returns[0].value.key() == f"self.apply({c.param_names[1]})", found=str(c.returns[0].value) if c.returns else None)


def r01_1_ordered(chk, sg, cr, ev, q, coords, n):
    """Alternative layout: ops = self.ordered_symmetry_operations(); codes = repeat([s.integer_code for s in ops], n);
    coordinates = tile(coordinates, (len(ops), 1)) with blocks 1.. overwritten by s(coordinates)."""
    ops_atoms = [k for k in ev.defs if k[1] == "symops"]
    OPS = P.atom(ops_atoms[-1])
    chk.ob("R01.1", SG, q, "the operation list is the group's identity-first ordering", ev.defs[ops_atoms[-1]].key() == "self.ordered_symmetry_operations()",
           found=str(ev.defs[ops_atoms[-1]]))
    ov = sg.ev("SpaceGroup.ordered_symmetry_operations")
    chk.saw(SG, "SpaceGroup.ordered_symmetry_operations")
    oku, okpart, sl = _identity_first_partition(ov)
    head = ov.returns[-1].value.key().startswith("(concat ((tuple (self.symmetry_operations[(after unity")
    chk.ob("R01.1", SG, "SpaceGroup.ordered_symmetry_operations", "identity first, then ops[:u] and ops[u+1:] (every operation exactly once)",
           oku and okpart and head, found=f"{sl} -> {str(ov.returns[-1].value)[:120]}")
    gen = [e for e in ev.events if e.kind == "assign" and e.name == "generator_symop"]
    okg = False
    if gen:
        a = obj_init(gen[-1].value).as_atom()
        if a and call_name(a) == "numpy.repeat" and len(a[2]) == 2:
            okg = f"{OPS}[" in a[2][0].key() and ".integer_code" in a[2][0].key() and a[2][1].key() in (n.key(), "nsites") and "comp ListComp" in a[2][0].key()
    chk.ob("R01.1", SG, q, "generator codes are each operation's code repeated nsites times (operation-major, like the coordinate blocks)", okg,
           found=str(obj_init(gen[-1].value))[:160] if gen else None)
    tr = [e for e in ev.events if e.kind == "assign" and e.name == "transformed"]
    okt = False
    if tr:
        a = obj_init(tr[-1].value).as_atom()
        if a and call_name(a) == "numpy.tile":
            shp = seq_items(a[2][1]) if len(a[2]) > 1 else None
            okt = a[2][0].key() == coords.key() and shp is not None and shp[0].key() == f"len({OPS})" and shp[1] == P.const(1)
        elif a and call_name(a) in ("numpy.empty", "numpy.zeros"):
            okt = True
    chk.ob("R01.1", SG, q, "block 0 of the coordinate buffer is the input (identity image)", okt, found=str(obj_init(tr[-1].value))[:120] if tr else None)
    loop = [e for e in ev.events if e.kind == "store" and e.loops and "transformed" in e.target.key()]
    okl = False
    if len(loop) == 1:
        e = loop[0]
        li = e.loops[-1]
        i = li.index
        s = e.target.as_atom()[2][0].as_atom()
        it = li.iter.as_atom() if li.iter is not None else None
        tail = bool(it and it[0] == "sub" and it[1].key() == OPS.key() and it[2][0].key() == "(slice 1 None None)")
        op = P.atom(("sub", li.iter, (i - 1,)))
        okl = li.kind == "enumerate" and li.lo == P.const(1) and tail and s and s[0] == "slice" and s[1] == i * n and s[2] == (i + 1) * n \
            and e.value.as_atom() and e.value.as_atom()[1].key() in (op.key(), f"{op}.apply") and e.value.as_atom()[2][0].key() == coords.key()
    chk.ob("R01.1", SG, q, "block i (i >= 1) holds ops[i](coordinates)", bool(okl), found=str(loop[0].value)[:120] if loop else None)
    ret = seq_items(ev.returns[-1].value)
    okret = bool(ret and len(ret) == 2 and "generator_symop" in ret[0].key() and "transformed" in ret[1].key())
    _consumer_unpack(chk, sg, cr, q, okret, ev)


def r01_234(chk, cr):
    q = "Crystal.unit_cell_atoms"
    ev = cr.ev(q, opaque={"translated", "mask", "dist", "tree", "sym", "uc_pos", "natom", "nsymops"})
    chk.saw(CR, q)
    defs = {k[1]: v for k, v in ev.defs.items()}
    # the stored dictionary
    setcall = [e for e in ev.events if e.kind == "call" and call_name(e.value.as_atom() or ()) == "setattr"
               and string_value(e.extra["args"][1]) == "_unit_cell_atom_dict"]
    store = [e for e in ev.events if e.kind == "store" and e.target.key() == "self._unit_cell_atom_dict"]
    chk.need(setcall or store, f"{q}: the memoised dictionary was not found")
    dval = setcall[0].extra["args"][2] if setcall else store[0].value
    items = dict_items(dval)
    chk.need(items, f"{q}: the result is not a literal dictionary")
    # a kept-opaque local that is rebound (sym = sym[mask]) shows up as a later version: read through to its definition
    later = {k: v for k, v in ev.defs.items() if k[0] == "local" and len(k) > 2 and isinstance(k[2], int) and k[2] > 0 and k[1] in ("sym", "uc_pos")}

    def through(v):
        for _ in range(4):
            hit = {a: later[a] for a in find_atoms(v, lambda a: a in later)}
            if not hit:
                break
            v = v.subs(hit)
        return v
    d = {k: through(v) for k, _, v in items}
    mask = P.atom([k for k in ev.defs if k[1] == "mask"][0]) if "mask" in defs else None
    trans = P.atom([k for k in ev.defs if k[1] == "translated"][-1]) if "translated" in defs else None
    chk.need(mask is not None and trans is not None, f"{q}: mask / wrapped positions not found")
    nsym = P.atom([k for k in ev.defs if k[1] == "nsymops"][-1])
    natom = P.atom([k for k in ev.defs if k[1] == "natom"][-1])
    if chk.want("R01.2"):
        chk.ob("R01.2", CR, q, "nsymops is the number of operations of the space group and natom the number of sites",
               defs["nsymops"].key() in ("len(self.space_group.symmetry_operations)", "len(self.space_group)", "len(self.symmetry_operations)")
               and defs["natom"].key() in ("self.nsites", "len(self.site_atoms)", "len(self.asymmetric_unit)", "len(self.asymmetric_unit.atomic_numbers)",
                                           "len(self.asymmetric_unit.positions)", "len(self.site_positions)", "self.asymmetric_unit.positions.shape[0]"),
               found=f"{defs['nsymops']} / {defs['natom']}")

        def masked_once(v):
            a = v.as_atom()
            if a and a[0] == "obj":
                a = a[3].as_atom()
            if a and a[0] == "call" and call_name(a) == ".to_cartesian":
                a = a[2][0].as_atom()
            if a and a[0] == "sub" and len(a[2]) == 1 and a[2][0].key() == mask.key():
                inner = a[1]
                ia = inner.as_atom()
                if ia and ia[0] == "obj":
                    inner = ia[3]
                if mask.key() in inner.key():
                    return None
                return inner
            return None
        want_base = {
            # arange(nsym * natom) % natom, or the same thing spelt tile(arange(natom), nsym)
            "asym_atom": lambda b: b.as_atom() and ((b.as_atom()[0] == "bin" and b.as_atom()[1] == "Mod" and b.as_atom()[3].key() == natom.key()
                                                    and call_name(b.as_atom()[2].as_atom() or ()) == "numpy.arange")
                                                   or (call_name(b.as_atom()) == "numpy.tile" and len(b.as_atom()[2]) == 2
                                                       and b.as_atom()[2][0].key() == f"numpy.arange({natom})" and b.as_atom()[2][1].key() == nsym.key())),
            "element": lambda b: call_name(b.as_atom() or ()) == "numpy.tile" and b.as_atom()[2][0].key() in ("self.site_atoms", "self.asymmetric_unit.atomic_numbers")
            and b.as_atom()[2][1].key() == nsym.key(),
            "label": lambda b: call_name(b.as_atom() or ()) == "numpy.tile" and b.as_atom()[2][0].key() in ("self.asymmetric_unit.labels", "self.site_labels")
            and b.as_atom()[2][1].key() == nsym.key(),
            "occupation": lambda b: call_name(b.as_atom() or ()) == "numpy.tile" and "occupation" in b.as_atom()[2][0].key()
            and b.as_atom()[2][1].key() == nsym.key(),
            "symop": lambda b: b.key() == "$sym",
            "frac_pos": lambda b: b.key() == trans.key(),
            "cart_pos": lambda b: b.key() == trans.key(),
        }
        for k, chkbase in want_base.items():
            v = d.get(k)
            base = masked_once(v) if v is not None else None
            ok = base is not None and bool(chkbase(base))
            chk.ob("R01.2", CR, q, f"column '{k}' is the op-major array of its kind filtered by the mask exactly once", ok,
                   fingerprint=f"column:{k}", found=str(v)[:160] if v is not None else "missing")
        chk.ob("R01.2", CR, q, "cart_pos is to_cartesian of the same masked array that is stored as frac_pos",
               "cart_pos" in d and "frac_pos" in d and d["cart_pos"].key() in (f"self.to_cartesian({d['frac_pos']})", f"self.unit_cell.to_cartesian({d['frac_pos']})"),
               found=f"{d.get('cart_pos')} vs {d.get('frac_pos')}")
    if chk.want("R01.3"):
        w = wrap_of(defs["translated"])
        tot = total_wrap(ev, defs["translated"], trans)
        if tot is not None:
            w = (tot, 1)                       # range [0,1) for every x: counts as a half-open idiom with unbounded K
        chk.ob("R01.3", CR, q, "positions are wrapped with an idiom whose range is the half-open [0,1): fmod(x + K, 1) with an integer K >= 1 "
               "(x % 1 returns exactly 1.0 for x = -1e-17, which lies outside the cell and is never merged with its image at 0.0)",
               w is not None and w[0].key() == "$uc_pos" and w[1] >= 1, fingerprint="wrap-idiom",
               expected="numpy.fmod(uc_pos + K, 1), K >= 1", found=str(defs["translated"]))
        total = tot is not None      # fmod(x + K, 1) keeps the sign of x + K: it is in [0,1) only for x >= -K
        chk.ob("R01.3", CR, q, "the wrap is total: every real coordinate is mapped into [0,1) (an image coordinate below -K stays negative under "
               "fmod(x + K, 1))", total if (w is not None and w[1] >= 1) else True, fingerprint="wrap-total",
               expected="a wrap that is correct for every x, e.g. t = fmod(x, 1); t[t < 0] += 1; t[t >= 1] = 0",
               found=f"{defs['translated']}: in [0,1) only for x >= -{w[1] if w else '?'}")
        # coincidence is a distance between atoms: a fixed fractional tolerance is 1.2 A in a 120 A cell (bonded atoms merge)
        tol_scaled = False
        if ds_term(defs) is not None:
            tk = ds_term(defs).key()
            tol_scaled = any(wd in tk for wd in ("lengths", "inverse", "norm(", "/")) or "cart" in str(defs.get("tree"))
        chk.ob("R01.3", CR, q, "coincidence is decided by a distance between atoms (Cartesian, or a tolerance scaled by the cell lengths), not by a "
               "fixed distance in fractional coordinates", tol_scaled, fingerprint="merge-metric", expected="tolerance in Angstrom",
               found=f"{ds_term(defs)} on a tree of fractional coordinates")
        tr = defs.get("tree")
        chk.ob("R01.3", CR, q, "the KD-tree used for merging is built on the wrapped positions",
               tr is not None and tr.as_atom() and "KDTree" in tr.as_atom()[1].key() and tr.as_atom()[2][0].key() == trans.key(),
               found=str(tr))
        kwt = dict(tr.as_atom()[3]) if tr is not None and tr.as_atom() and len(tr.as_atom()) > 3 and tr.as_atom()[3] else {}
        bs = kwt.get("boxsize")
        chk.ob("R01.3", CR, q, "the merge is periodic: images wrapped to opposite faces of the cell (0.00003 / 0.99997) are the same site, so the tree "
               "has the unit box as its period", bs is not None and bs.const_value() == 1, fingerprint="periodic-tree",
               expected="KDTree(wrapped, boxsize=1.0)", found=str(tr))
        kind, desc = pair_enumeration(ev, defs)
        # with the "both members still unmerged" test in the loop the result does not depend on the order of the pairs
        from ..updates import updates_of as _uo
        _acc = [u for u in _uo(ev) if u.loops and u.delta is not None and "occupation" in u.root.key()]
        _alive = bool(_acc) and " ".join(c.key() for c, p in _acc[0].guards).count(mask.key()) >= 2
        chk.ob("R01.3", CR, q, "coincident images are enumerated by a tolerance-bounded query of the tree against itself, in a defined order "
               "unless the merge is order-independent (with three or more coincident images an unguarded accumulation depends on the order)",
               kind == "ordered" or (kind == "unordered" and _alive), fingerprint="pair-enumeration", expected="tree.sparse_distance_matrix(tree, max_distance=tolerance).items() "
               "or sorted(tree.query_pairs(tolerance))", found=desc)
        mi = defs.get("mask")
        chk.ob("R01.3", CR, q, "the mask starts all-true over every generated image",
               mi is not None and call_name(mi.as_atom() or ()) == "numpy.ones" and "dtype=bool" in mi.key(), found=str(mi))
    if chk.want("R01.4"):
        from ..updates import updates_of
        ups = [u for u in updates_of(ev) if u.loops]
        acc = [u for u in ups if u.delta is not None and u.root.as_atom() and u.root.as_atom()[0] == "obj" and u.root.as_atom()[1] == "occupation"]
        st = [u.event for u in ups if u.root.key() == mask.key()]
        if not acc:
            # a vectorised merge: accumulating through an array index loses repeated targets (3+ coincident images)
            from .generic import fancy_aug_sites
            sites = [(e, w) for e, w in fancy_aug_sites(ev) if "occupation" in e.target.key()]
            for e, w in sites:
                chk.ob("R01.4", CR, q, "the occupancy of every absorbed image is added to its survivor (also when one survivor absorbs several images)",
                       False, node=e.node, fingerprint="fancy-accumulate", expected="a loop over the pairs, or numpy.add.at(occupation, keep, occupation[drop])",
                       found=w)
        chk.need(len(acc) == 1 and len(st) == 1, f"{q}: merge loop body not recognised")
        a, s = acc[0], st[0]
        loop = a.loops[-1]
        kind, desc = pair_enumeration(ev, defs)
        it = loop.iter
        elem = P.atom(("sub", it, (loop.index,))) if it is not None else None
        chk.ob("R01.4", CR, q, "the merge loop runs over the enumerated close pairs", kind is not None and it is not None and
               (it.key() in ("$dist.items()", "$dist.keys()", "$dist") or "query_pairs" in it.key()), found=str(it))
        if it is not None and it.key() == "$dist.items()":
            pair = P.atom(("sub", elem, (P.const(0),)))
            needs_filter = True
        elif it is not None and it.key() in ("$dist.keys()", "$dist"):
            pair = elem                    # the keys of the sparse matrix are the (i, j) pairs, in the order of items()
            needs_filter = True
        else:
            pair = elem
            needs_filter = False           # query_pairs yields each pair once with i < j
        ia = P.atom(("sub", pair, (P.const(0),)))
        ib = P.atom(("sub", pair, (P.const(1),)))
        dst = a.index[0]
        want = P.atom(("sub", a.root, (ib,)))
        okdir = dst.key() == ia.key() and a.delta == want
        chk.ob("R01.4", CR, q, "the survivor (first index of the pair) receives the absorbed site's occupancy", okdir,
               expected="occ[i] += occ[j]", found=a.describe()[-160:])
        chk.ob("R01.4", CR, q, "exactly the absorbed site (second index) is masked out",
               s.value.key() == "False" and s.target.as_atom()[2][0].key() == ib.key(), found=f"{s.target} = {s.value}")
        strict = False
        for c, pol in a.guards:
            ca = c.as_atom()
            if ca and ca[0] == "lt" and pol and ca[1].key() == ia.key() and ca[2].key() == ib.key():
                strict = True
            if ca and ca[0] == "le" and not pol and ca[1].key() == ib.key() and ca[2].key() == ia.key():
                strict = True
        chk.ob("R01.4", CR, q, "only pairs with i strictly below j are merged (self pairs never mask a site)",
               (strict or not needs_filter) and tuple((c.key(), p) for c, p in a.guards) == tuple((c.key(), p) for c, p in s.guards),
               found=[f"{'' if p else 'not '}{c}"[-80:] for c, p in a.guards][-1:])
        gtxt = " ".join(c.key() for c, p in a.guards)
        # an absorbed site gives its occupancy to exactly one survivor: both members of a merged pair must still be alive, otherwise a chain
        # a~b~c (a not within tolerance of c) credits b's occupancy twice or adds to a site that is itself dropped
        alive = mask.key() in gtxt and ia.key() in gtxt and ib.key() in gtxt and gtxt.count(mask.key()) >= 2
        # ... as two conditions that both hold on the way to the merge (mask[i] and mask[j], not mask[i] or mask[j], not negated)
        mi, mj = P.atom(("sub", mask, (ia,))).key(), P.atom(("sub", mask, (ib,))).key()
        held = {c.key() for c, pol in a.guards if pol}
        alive = alive and mi in held and mj in held
        chk.ob("R01.4", CR, q, "total occupancy is conserved: a pair is merged only while both members are still unmerged (closeness within the "
               "tolerance is not transitive)", alive, node=a.event.node, fingerprint="merge-alive", expected="if mask[i] and mask[j]: ...",
               found=[f"{'' if p else 'not '}{c}"[-80:] for c, p in a.guards])
        # only images of one and the same asymmetric-unit site are merged (two elements sharing a position are two sites)
        same_site = any(w in gtxt for w in ("asym[", "uc_nums[", "asym_atom", "labels[", "numpy.tile(self.site_atoms", "numpy.tile(atoms",
                                               "numpy.tile(self.asymmetric_unit.atomic_numbers", "numpy.tile(self.asymmetric_unit.labels", "numpy.tile(numpy.arange("))
        # ... as an equality COL[i] == COL[j] of a site-identity column that holds on the way to the merge (not its negation)
        eq_ok = False
        for c, pol in a.guards:
            ca = c.as_atom()
            if ca and ca[0] in ("eq", "ne") and pol == (ca[0] == "eq"):
                l, r = ca[1].as_atom(), ca[2].as_atom()
                if l and r and l[0] == "sub" and r[0] == "sub" and l[1].key() == r[1].key() and len(l[2]) == 1 and len(r[2]) == 1 \
                        and {l[2][0].key(), r[2][0].key()} == {ia.key(), ib.key()}:
                    eq_ok = True
        same_site = same_site and eq_ok
        chk.ob("R01.4", CR, q, "only sites of the same element (or the same asymmetric-unit site) are merged: two elements sharing a position stay two sites",
               same_site, node=a.event.node, fingerprint="merge-same-site", expected="uc_nums[i] == uc_nums[j] (or asym[i] == asym[j]) in the merge condition",
               found=[f"{'' if p else 'not '}{c}"[-80:] for c, p in a.guards])


        # every enumerated pair is considered: what decides whether a pair is merged is a property of the pair (order, both alive, same
        # site) - a condition that does not look at the pair switches the whole merge off, a break abandons the remaining pairs
        from ..symex import has_break
        base = set()
        for e0 in ev.events:            # conditions under which the pairs were enumerated in the first place (e.g. the memo test)
            if e0.kind == "assign" and e0.name in ("dist", "tree"):
                base |= {(c.key(), p) for c, p in e0.guards}
        foreign = [(c, p) for c, p in a.guards if (c.key(), p) not in base and ia.key() not in c.key() and ib.key() not in c.key() and elem.key() not in c.key()]
        chk.ob("R01.4", CR, q, "every enumerated pair is considered for merging: the merge depends on the pair only (no switch that skips the merge, "
               "no break out of the pair loop)", not foreign and not has_break(loop.node.body), node=a.event.node, fingerprint="merge-every-pair",
               found=[f"{'' if p else 'not '}{c}"[-90:] for c, p in foreign] + (["break in the pair loop"] if has_break(loop.node.body) else []))


def ds_term(defs):
    return defs.get("dist")


def pair_enumeration(ev, defs):
    """How unit_cell_atoms enumerates coincident pairs -> ('ordered' | 'unordered' | None, description).

    Frozen idiom table (DESIGN C01): scipy's sparse_distance_matrix returns a dictionary-of-keys matrix whose items() come in
    row-major insertion order; KDTree.query_pairs returns a Python *set* (no order) unless it is sorted."""
    ds = defs.get("dist")
    if ds is not None and ".sparse_distance_matrix" in ds.key():
        ok = "max_distance=tolerance" in ds.key() or ", tolerance)" in ds.key()
        a = ds.as_atom()
        same = bool(a and a[0] == "call" and a[2] and a[1].as_atom() and a[1].as_atom()[1].key() == a[2][0].key())
        return ("ordered" if ok and same else None), str(ds)
    for e in ev.events:
        if e.kind == "call" and call_name(e.value.as_atom() or ()) == ".query_pairs":
            srt = any(x.kind == "call" and call_name(x.value.as_atom() or ()) == "sorted" and e.value.key() in x.value.key() for x in ev.events)
            arr = "output_type='ndarray'" in e.value.key()
            return ("ordered" if srt else "unordered"), str(e.value) + (" (sorted)" if srt else " (a set: iteration order undefined)" if not arr else " (array, unsorted)")
    raise AnalysisError("Crystal.unit_cell_atoms: unrecognised enumeration of coincident images (extend pair_enumeration consciously)")


def r01_5(chk, repo, cr):
    ev = cr.ev("Crystal.unit_cell_atoms")
    setcall = [e for e in ev.events if e.kind == "call" and call_name(e.value.as_atom() or ()) == "setattr"]
    keys = None
    for e in setcall:
        items = dict_items(e.extra["args"][2])
        if items:
            keys = {k for k, _, _ in items}
    for e in ev.events:
        if e.kind == "store" and e.target.key() == "self._unit_cell_atom_dict" and dict_items(e.value):
            keys = {k for k, _, _ in dict_items(e.value)}
    chk.need(keys, "unit_cell_atoms: dictionary keys not found")
    sv = cr.ev("Crystal.slab")
    slab_keys = {k for k in keys if not k.endswith("pos")}
    for e in sv.events:
        if e.kind == "store" and e.target.as_atom()[0] == "sub":
            k = string_value(e.target.as_atom()[2][0])
            if k:
                slab_keys.add(k)
    n = 0
    scan = [CR, "ext/vasp.py", "ext/crystal.py", "fmt/xtb.py", "crystal/sfac/__init__.py", "fmt/crystal17.py", "ext/cx.py",
            "crystal/fingerprint.py", "crystal/powder.py"]
    for rel in scan:
        if not repo.exists(rel):
            continue
        mod = repo.module(rel)
        for qual, fn in mod.funcs.items():
            src = mod.seg(fn)
            if "unit_cell_atoms" not in src and ".slab(" not in src and "_unit_cell_atom_dict" not in src:
                continue
            ev2 = Ev(fn, mod.ctx).run()
            seen = set()
            for e in ev2.events:
                for val in (e.value, e.target):
                    if val is None:
                        continue
                    for a in find_atoms(val, lambda a: a[0] == "sub" and len(a[2]) == 1 and string_value(a[2][0]) is not None):
                        base = a[1].key()
                        k = string_value(a[2][0])
                        kind = None
                        if base.endswith("unit_cell_atoms()") or "_unit_cell_atom_dict')" in base and base.startswith("getattr(") \
                                or base.endswith("._unit_cell_atom_dict"):
                            kind = "uc"
                        elif base.endswith(")") and ".slab(" in base and base.rfind(".slab(") > base.rfind("]"):
                            kind = "slab"
                        if kind is None or (kind, k) in seen:
                            continue
                        seen.add((kind, k))
                        n += 1
                        have = keys if kind == "uc" else slab_keys
                        chk.ob("R01.5", rel, qual, f"key '{k}' read from the {'unit-cell' if kind == 'uc' else 'slab'} dictionary is produced",
                               k in have, node=e.node, fingerprint=f"key:{kind}:{k}", found=sorted(have))
    chk.need(n >= 10, f"expected >= 10 consumer reads of the unit-cell / slab dictionaries, found {n}")
    # the direct memo read in unit_cell_molecules is dominated by a call that reaches the producer
    mv = cr.ev("Crystal.unit_cell_molecules")
    direct = None
    reach = None
    for idx, e in enumerate(mv.events):
        if e.kind == "call" and call_name(e.value.as_atom() or ()) == "getattr" and string_value(e.extra["args"][1]) == "_unit_cell_atom_dict":
            direct = idx
        if e.kind == "call" and call_name(e.value.as_atom() or ()) == ".unit_cell_connectivity" and reach is None:
            reach = idx
    if direct is not None:
        cv = cr.ev("Crystal.unit_cell_connectivity")
        via_slab = any(e.kind == "call" and call_name(e.value.as_atom() or ()) == ".slab" for e in cv.events)
        sl = cr.ev("Crystal.slab")
        via_uc = any(e.kind == "call" and call_name(e.value.as_atom() or ()) == ".unit_cell_atoms" for e in sl.events)
        chk.ob("R01.5", CR, "Crystal.unit_cell_molecules", "the direct read of the memoised dictionary is preceded by a call that produces it "
               "(unit_cell_connectivity -> slab -> unit_cell_atoms)", reach is not None and reach < direct and via_slab and via_uc)
