"""R<nn>.18  a parameter the function accepts is not silently dropped on the way to a callee that accepts it too.

`molecule_environments(self, radius=6.0, threshold=1e-3)` calls `self.molecule_environment(x, radius=radius, threshold=threshold)`.
Dropping `radius=radius` from the call (seed C03-24), or `bond_tolerance=bond_tolerance` from `symmetry_unique_molecules` ->
`unit_cell_molecules` (seed C04-24), leaves a parameter that is accepted, documented and then ignored: the callee falls back to its own
default whatever the caller asked for.  The rule is exact about what it flags: a named parameter (not self / cls / *args / **kwargs) of a
function that carries an obligation of the property's own rules (or calls one that does), which the body never reads, while the body calls a method of the same
class or a function of the same module whose signature has a parameter of that very name.  A parameter that nothing on the path could
take (`unit` of StockholderWeight.from_arrays) is not reported.
"""
from __future__ import annotations

import ast


# calls that do not pass a same-named parameter on, confirmed by reading (module, caller, callee, parameter): reason
NOT_FORWARDED = {
    ("crystal/crystal.py", "Crystal.symmetry_unique_molecules", "unit_cell_molecules", "bond_tolerance"):
        "the second call, made to label the images, relies on the memo filled by the first call a few lines above (which passes bond_tolerance); "
        "argument-dependent memos are the open finding R04.8",
    ("fmt/cif.py", "Cif.parse_quoted_block", "parse_quote", "delimiter"):
        "parse_quoted_block is only ever called with its default delimiter ';', which is parse_quote's default as well (the multi-line text block of "
        "CIF); a latent inconsistency of the source, not reachable through the reader",
}


# keywords absorbed by a callee's **kwargs on the unchanged tree, confirmed by reading (module, caller, callee, keyword): reason
ABSORBED_TODAY = {
    ("crystal/crystal.py", "Crystal.normalize_hydrogen_bondlengths", "unit_cell_connectivity", "bond_tolerance"):
        "the source really ignores the value (unit_cell_connectivity's parameter is called `tolerance`): normalize_hydrogen_bondlengths always perceives "
        "bonds with the default 0.4 A.  A latent slip of the source, but outside every property statement here: the bonds it perceives are the same "
        "for every history (C14 compares with a fresh crystal given the same calls), and no C04 query runs through it.  Recorded in DESIGN 9.5 round 9",
}


def rid_of(chk):
    return f"R{chk.pid[1:]}.18"


def _params(fn):
    a = fn.args
    return [x.arg for x in a.posonlyargs + a.args + a.kwonlyargs]


def run(chk):
    rid = rid_of(chk)
    chk.rule(rid, "a parameter that the function accepts and a callee on its path accepts under the same name is read or forwarded (not silently "
                  "replaced by the callee's default)", 0)
    if not chk.want(rid):
        return
    generic = {f"R{chk.pid[1:]}.{k}" for k in (9, 12, 13, 18, 19, 20)}
    sites = {}
    for o in chk.obs:
        if o.rule in generic or not o.function or o.function.startswith("<") or not o.module.endswith(".py"):
            continue
        sites.setdefault(o.module.replace("src/chmpy/", ""), set()).add(o.function)
    n = bad = 0
    for rel, quals in sorted(sites.items()):
        try:
            mod = chk.repo.module(rel)
        except Exception:      # noqa: BLE001
            continue
        for q in sorted(mod.funcs):
            fn = mod.funcs.get(q)
            if not isinstance(fn, (ast.FunctionDef, ast.AsyncFunctionDef)):
                continue
            cls = q.rsplit(".", 1)[0] if "." in q else None
            read = {x.id for x in ast.walk(fn) if isinstance(x, ast.Name) and isinstance(x.ctx, ast.Load)}
            unread = [p for p in _params(fn) if p not in ("self", "cls") and p not in read]
            if not unread:
                n += 1
                continue
            callees = {}
            for c in ast.walk(fn):
                if not isinstance(c, ast.Call):
                    continue
                target = None
                if isinstance(c.func, ast.Attribute) and isinstance(c.func.value, ast.Name) and c.func.value.id in ("self", "cls") and cls:
                    target = mod.funcs.get(f"{cls}.{c.func.attr}")
                elif isinstance(c.func, ast.Name):
                    target = mod.funcs.get(c.func.id)
                if isinstance(target, (ast.FunctionDef, ast.AsyncFunctionDef)) and target is not fn:
                    callees[target.name] = (target, c)
            n += 1
            for p in unread:
                # the function itself, or the callee that takes the parameter, carries an obligation of this property
                takers = [(nm, c) for nm, (t, c) in callees.items() if p in _params(t) and not any(k.arg == p for k in c.keywords)
                          and (q in quals or (f"{cls}.{nm}" if cls else nm) in quals or nm in quals)]
                if takers:
                    bad += 1
                    nm, c = takers[0]
                    chk.ob(rid, rel, q, f"parameter `{p}` is read or handed on: the body never reads it although it calls {nm}(...), which takes a "
                           f"`{p}` of its own (it now runs with its default)", False, node=c, fingerprint=f"dropped:{q}:{p}",
                           expected=f"{nm}(..., {p}={p})", found=ast.unparse(c)[:140])
    # second clause: a call of a same-class method / same-module function that has a parameter named like one of the caller's parameters passes
    # that parameter (by keyword, by position or through **kwargs) -- at every such call, also when the caller reads the parameter elsewhere
    for rel, quals in sorted(sites.items()):
        try:
            mod = chk.repo.module(rel)
        except Exception:      # noqa: BLE001
            continue
        for q in sorted(mod.funcs):
            fn = mod.funcs.get(q)
            if not isinstance(fn, (ast.FunctionDef, ast.AsyncFunctionDef)):
                continue
            cls = q.rsplit(".", 1)[0] if "." in q else None
            ps = [p for p in _params(fn) if p not in ("self", "cls")]
            for c in ast.walk(fn):
                if not isinstance(c, ast.Call):
                    continue
                t = None
                if isinstance(c.func, ast.Attribute) and isinstance(c.func.value, ast.Name) and c.func.value.id in ("self", "cls") and cls:
                    t = mod.funcs.get(f"{cls}.{c.func.attr}")
                elif isinstance(c.func, ast.Name):
                    t = mod.funcs.get(c.func.id)
                if not isinstance(t, (ast.FunctionDef, ast.AsyncFunctionDef)) or t is fn:
                    continue
                tq = f"{cls}.{t.name}" if cls and f"{cls}.{t.name}" in mod.funcs and mod.funcs[f"{cls}.{t.name}"] is t else t.name
                if not (q in quals or tq in quals):
                    continue
                tps = [p for p in _params(t) if p not in ("self", "cls")]
                for p in ps:
                    if p not in tps or (rel, q, t.name, p) in NOT_FORWARDED:
                        continue
                    passed = any(k.arg == p for k in c.keywords) or tps.index(p) < len(c.args) or any(k.arg is None for k in c.keywords) \
                        or any(isinstance(a_, ast.Starred) for a_ in c.args)
                    if not passed and not any(o.fingerprint == f"dropped:{q}:{p}" for o in chk.obs):
                        bad += 1
                        chk.ob(rid, rel, q, f"the call {t.name}(...) passes the caller's `{p}` on ({t.name} has a parameter of that name; without it "
                               f"the callee runs with its own default whatever the caller was asked for)", False, node=c, fingerprint=f"not-passed:{q}:{t.name}:{p}",
                               expected=f"{t.name}(..., {p}={p})", found=ast.unparse(c)[:140])
    # third clause: a keyword handed to a same-class method / same-module function that has no parameter of that name is absorbed by the
    # callee's **kwargs; the callee must then take it out of **kwargs (a string constant of that name in its body) or hand **kwargs on --
    # otherwise the keyword is accepted and ignored (seed C04-25: the callee's `tolerance` renamed, the caller still passing tolerance=...)
    for rel, quals in sorted(sites.items()):
        try:
            mod = chk.repo.module(rel)
        except Exception:      # noqa: BLE001
            continue
        for q in sorted(mod.funcs):
            fn = mod.funcs.get(q)
            if not isinstance(fn, (ast.FunctionDef, ast.AsyncFunctionDef)):
                continue
            cls = q.rsplit(".", 1)[0] if "." in q else None
            for c in ast.walk(fn):
                if not isinstance(c, ast.Call) or not c.keywords:
                    continue
                t = None
                if isinstance(c.func, ast.Attribute) and isinstance(c.func.value, ast.Name) and c.func.value.id in ("self", "cls") and cls:
                    t = mod.funcs.get(f"{cls}.{c.func.attr}")
                elif isinstance(c.func, ast.Name):
                    t = mod.funcs.get(c.func.id)
                if not isinstance(t, (ast.FunctionDef, ast.AsyncFunctionDef)) or t is fn or t.args.kwarg is None:
                    continue
                tq = f"{cls}.{t.name}" if cls and f"{cls}.{t.name}" in mod.funcs and mod.funcs[f"{cls}.{t.name}"] is t else t.name
                if not (q in quals or tq in quals):
                    continue
                kw = t.args.kwarg.arg
                hands_on = any(isinstance(x, ast.keyword) and x.arg is None and isinstance(x.value, ast.Name) and x.value.id == kw for x in ast.walk(t)) \
                    or any(isinstance(x, ast.Call) and any(isinstance(a_, ast.Name) and a_.id == kw for a_ in x.args) for x in ast.walk(t)) \
                    or any(isinstance(x, (ast.For, ast.comprehension)) and any(isinstance(y, ast.Name) and y.id == kw for y in ast.walk(x.iter)) for x in ast.walk(t))
                if hands_on:
                    continue
                consts = {x.value for x in ast.walk(t) if isinstance(x, ast.Constant) and isinstance(x.value, str)}
                n += 1
                for k in c.keywords:
                    if k.arg is None or k.arg in _params(t) or k.arg in consts or (rel, q, t.name, k.arg) in ABSORBED_TODAY:
                        continue
                    bad += 1
                    chk.ob(rid, rel, q, f"the keyword `{k.arg}` of the call {t.name}(...) is taken by the callee: {t.name} has no parameter of that name, its "
                           f"**{kw} absorbs the keyword, and nothing in its body takes `{k.arg}` out of **{kw} or hands **{kw} on (the value is ignored)", False,
                           node=c, fingerprint=f"absorbed:{q}:{t.name}:{k.arg}", expected=f"a parameter or {kw}.get('{k.arg}') in {t.name}",
                           found=ast.unparse(c)[:140])
    if not bad:
        chk.ob(rid, "-", "-", f"no accepted parameter is dropped on the way to a callee that takes it ({n} functions with obligations read)", True,
               fingerprint="forwarding:none")
