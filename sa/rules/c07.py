"""C07 — spherical harmonic transform: index layouts, traversal order, sibling kernels, duality, recurrences."""
from __future__ import annotations

import ast
from fractions import Fraction

from ..core import AnalysisError
from ..poly import P, _mentions
from ..symex import Ev, find_atoms, call_name, seq_items, compare, guard_holds
from ..updates import updates_of, packed_roles, packed_index, range_loops
from .c08 import inline_hook

SHT = "shape/sht.py"
PYX = "shape/_sht.pyx"
AL = "shape/assoc_legendre.py"

PI = P.name("pi")
NONE = P.atom(("const", None))


def canon_lv(p: P, loops):
    """Rename range-loop variables to role atoms v0 (innermost), v1, ... so siblings can be compared."""
    rl = range_loops(loops)
    mapping = {}
    for depth, l in enumerate(reversed(rl)):
        mapping[l.index.as_atom()] = P.atom(("role", f"v{depth}"))
    return p.subs(mapping), mapping


def canon_update(u, k, extra_map):
    rl = range_loops(u.loops)
    mapping = dict(k.atom_map)
    mapping.update(extra_map)
    for depth, l in enumerate(reversed(rl)):
        mapping[l.index.as_atom()] = P.atom(("role", f"v{depth}"))

    def cv(p):
        return p.subs(mapping)
    root = k.name_of(u.root)
    idx = ", ".join(str(cv(i)) for i in u.index)
    dom = "; ".join(f"v{d} in [{cv(l.lo)}, {cv(l.hi)})" for d, l in enumerate(reversed(rl)))
    gs = sorted(f"{'' if pol else 'not '}{cv(c)}" for c, pol in u.guards if _is_local_guard(c, rl))
    body = f"+= {cv(u.delta)}" if u.delta is not None else f"= {cv(u.value)}"
    return f"{root}[{idx}] {body} | {dom} | {' & '.join(gs)}"


def _is_local_guard(c, rl):
    """Keep guards that mention a loop variable of the kernel loops (drop e.g. 'result is None')."""
    return any(_mentions(c, l.index.as_atom()) for l in rl)


def run(chk):
    repo = chk.repo
    sht = repo.module(SHT)
    pyx = repo.module(PYX)
    al = repo.module(AL)
    chk.explanation = ("sht.py, _sht.pyx, assoc_legendre.py: every kernel is summarised as a set of array updates whose "
                       "indices are polynomials in the loop variables (running counters closed by symbolic summation); "
                       "packed-Legendre accesses are compared with the m-major position formula, complex-layout "
                       "accesses with l(l+1)+m, compiled kernels with their pure-Python references update by update, "
                       "analysis with synthesis as transfer tuples, recurrence coefficients with the orthonormal formulas.")
    chk.rule("R07.1", "index layouts: idx_c = l(l+1)+m, nlm = (L+1)^2, nplm = (L+1)(L+2)/2, work arrays sized with them", 8)
    chk.rule("R07.2", "one traversal order: producer and all consumers address the packed Legendre array at l + m(2L+1-m)/2 and cover 0<=m<=l<=L once", 30)
    chk.rule("R07.3", "compiled kernels equal the pure-Python references as sets of array updates", 10)
    chk.rule("R07.4", "analysis and synthesis are dual: equal transfer tuples (coefficient index, Fourier index, phase); real synthesis doubles m>0", 8)
    chk.rule("R07.5", "recurrence coefficients are the orthonormal ones; the three-term recurrence has the stated form", 14)
    chk.rule("R07.6", "expand_coeffs writes c(l,m) and, for m != 0, c(l,-m) = (-1)^m conj c(l,m)", 4)
    chk.rule("R07.7", "quadrature plumbing: one FFT norm, fft/ifft pairing, weights rescaled to 4 pi, phi grid, ntheta >= L+1", 8)
    chk.rule("R07.10", "point-wise evaluation is the synthesis at one point: every coefficient enters with the synthesis transfer factor times "
                      "its Legendre value times exp(i k phi), k the Fourier index of the synthesis (real part for the real transform)", 4)
    chk.rule("R07.8", "transform results are freshly allocated (no public SHT method returns a view of an instance work array) and leave the transform as the kernel accumulated them (no thresholding)", 8)
    K = kernels(chk, sht, pyx, al)
    if chk.want("R07.1"):
        r07_1(chk, sht, pyx, K)
    if chk.want("R07.2"):
        r07_2(chk, K)
    if chk.want("R07.3"):
        r07_3(chk, K)
    if chk.want("R07.4"):
        r07_4(chk, sht, K)
    if chk.want("R07.5"):
        r07_5(chk, pyx, al, K)
    if chk.want("R07.6"):
        r07_6(chk, K)
    if chk.want("R07.7"):
        r07_7(chk, sht)
    if chk.want("R07.8"):
        r07_8(chk, sht)
    if chk.want("R07.10"):
        r07_9(chk, sht, K)
    chk.assume("Gauss-Legendre nodes/weights and floating-point exactness are not decided; of the nphi rounding helper only 'result >= request' is decided")
    chk.assume("loops are taken to execute at least zero times with hi >= lo (closed-form summation of running counters)")
    chk.assume("scipy fft/ifft with the same norm are mutual inverses (library contract)")


class Kernel:
    def __init__(self, mod, rel, qual, rootmap, L, extra=None):
        self.mod, self.rel, self.qual = mod, rel, qual
        self.ev = mod.ev(qual)
        self.rootmap = rootmap      # key of root term -> canonical name
        self.L = L                  # P term of lmax
        self.extra = extra or {}
        # atoms of the root terms -> canonical names; 'if x is None: x = default' turns a parameter into
        # ite(x is None, default, x), which is named like the parameter; local objects are named by their variable
        self.atom_map = {}
        for e in self.ev.events:
            for val in (e.target, e.value):
                if val is None:
                    continue
                for a in find_atoms(val, lambda a: a[0] in ("ite", "name", "attr", "obj")):
                    key = P.atom(a).key()
                    if a[0] == "ite" and a[3].key() in rootmap:
                        self.rootmap[key] = rootmap[a[3].key()]
                    if key in self.rootmap:
                        self.atom_map[a] = P.name(self.rootmap[key])

    def name_of(self, root: P):
        return self.rootmap.get(root.key(), root.key())

    def updates(self, roots=None):
        ups = updates_of(self.ev)
        if roots is not None:
            ups = [u for u in ups if self.rootmap.get(u.root.key()) in roots]
        return ups


def kernels(chk, sht, pyx, al):
    K = {}
    cy = {"coeffs": "coeffs", "fft": "fft", "plm_work_array": "plm", "cin": "cin", "cout": "cout"}
    for q in ("analysis_cython_real", "analysis_cython_cplx", "synthesis_cython_real", "synthesis_cython_cplx",
              "expand_coeffs_cython"):
        K[q] = Kernel(pyx, PYX, q, cy, P.name("lmax"))
        chk.saw(PYX, q)
    K["pyx_batch"] = Kernel(pyx, PYX, "AssocLegendre.evaluate_batch_cython",
                            {"result": "result", "self.cache": "cache", "self.a": "a", "self.b": "b"},
                            P.atom(("attr", P.name("self"), "lmax")))
    K["py_batch"] = Kernel(al, AL, "AssocLegendre.evaluate_batch",
                           {"result": "result", "self.cache": "cache", "self.a": "a", "self.b": "b"},
                           P.atom(("attr", P.name("self"), "lmax")))
    chk.saw(PYX, "AssocLegendre.evaluate_batch_cython")
    chk.saw(AL, "AssocLegendre.evaluate_batch")
    py = {"self.fft_work_array": "fft", "self.plm_work_array": "plm"}
    selfL = P.atom(("attr", P.name("self"), "lmax"))
    for q in ("analysis_pure_python", "analysis_pure_python_cplx", "synthesis_pure_python", "synthesis_pure_python_cplx",
              "_eval_at_points_real", "_eval_at_points_cplx", "invariants_kazhdan"):
        k = Kernel(sht, SHT, "SHT." + q, dict(py), selfL)
        # the coefficient array: local object or parameter named coeffs
        for e in k.ev.events:
            if e.kind == "assign" and e.name == "coeffs" and e.value.as_atom() and e.value.as_atom()[0] == "obj":
                k.rootmap[e.value.key()] = "coeffs"
        k.rootmap["coeffs"] = "coeffs"
        K[q] = k
        chk.saw(SHT, "SHT." + q)
    return K


# ------------------------------------------------------------------------------------------------
def r07_1(chk, sht, pyx, K):
    ev = sht.ev("SHT.idx_c")
    l, m = P.name(ev.param_names[1]), P.name(ev.param_names[2])
    chk.ob("R07.1", SHT, "SHT.idx_c", "idx_c(l, m) == l(l+1) + m", ev.returns[0].value == l * (l + 1) + m,
           expected=str(l * (l + 1) + m), found=str(ev.returns[0].value))
    L = P.atom(("attr", P.name("self"), "lmax"))
    ev = sht.ev("SHT.nlm")
    chk.ob("R07.1", SHT, "SHT.nlm", "nlm == (L+1)^2", ev.returns[0].value == (L + 1) * (L + 1), found=str(ev.returns[0].value))
    ev = sht.ev("SHT.nplm")
    v = ev.returns[0].value
    va = v.as_atom()
    ok = v == (L + 1) * (L + 2) / 2 or bool(va and va[0] == "bin" and va[1] == "FloorDiv" and va[2] == (L + 1) * (L + 2)
                                             and va[3] == P.const(2))
    chk.ob("R07.1", SHT, "SHT.nplm", "nplm == (L+1)(L+2)/2", ok, found=str(v))
    # work arrays
    ev = sht.ev("SHT.__init__")
    chk.saw(SHT, "SHT.__init__")
    sizes = {}
    for e in ev.events:
        if e.kind == "store":
            t = e.target.as_atom()
            if t and t[0] == "attr" and t[1].key() == "self":
                a = e.value.as_atom()
                if a and a[0] == "call" and call_name(a) in ("numpy.empty", "numpy.zeros"):
                    sizes[t[2]] = a[2][0].key()
    chk.ob("R07.1", SHT, "SHT.__init__", "plm_work_array has nplm() entries", sizes.get("plm_work_array") == "self.nplm()",
           found=sizes.get("plm_work_array"))
    # ... nphi read back from the attribute, or the very value that is stored in it (a local that holds it)
    stored_nphi = {e.value.key() for e in ev.events if e.kind == "store" and e.target.key() == "self.nphi" and not e.guards}
    chk.ob("R07.1", SHT, "SHT.__init__", "fft_work_array has nphi entries", sizes.get("fft_work_array") == "self.nphi"
           or (len(stored_nphi) == 1 and sizes.get("fft_work_array") in stored_nphi), found=sizes.get("fft_work_array"))
    for q in ("SHT.analysis", "SHT.analysis_pure_python", "SHT.analysis_pure_python_cplx"):
        ev = sht.ev(q)
        chk.saw(SHT, q)
        for e in ev.events:
            if e.kind == "assign" and e.name == "coeffs":
                a = e.value.as_atom()
                init = a[3] if a and a[0] == "obj" else e.value
                ia = init.as_atom()
                if not (ia and ia[0] in ("call", "ite", "attr")):
                    continue
                real_branch = None
                for c, pol in e.guards:
                    if "iscomplexobj" in c.key():
                        # real = not iscomplexobj(values)
                        real_branch = pol if c.as_atom()[0] == "not" else (not pol)
                if q.endswith("_cplx"):
                    real_branch = False
                elif q.endswith("pure_python"):
                    real_branch = True
                for rb, size in _sizes_of(init, sizes, real_branch, q):
                    want = "self.nplm()" if rb else "self.nlm()"
                    chk.ob("R07.1", SHT, q, f"the {'real' if rb else 'complex'} coefficient vector has {want} entries",
                           size == want, node=e.node, fingerprint=f"size:{rb}", expected=want, found=size)
    ev = pyx.ev("expand_coeffs_to_full")
    ok = False
    for e in ev.events:
        if e.kind == "assign" and e.name == "new_coeffs":
            a = e.value.as_atom()
            init = a[3].as_atom() if a and a[0] == "obj" else a
            lm = P.name(ev.param_names[0])
            ok = bool(init and init[0] == "call" and init[2][0] == (lm + 1) * (lm + 1))
    chk.ob("R07.1", PYX, "expand_coeffs_to_full", "the expanded vector has (L+1)^2 entries", ok)
    # complex-layout accesses are l(l+1) +- m
    for name in ("analysis_cython_cplx", "synthesis_cython_cplx", "analysis_pure_python_cplx", "synthesis_pure_python_cplx",
                 "_eval_at_points_cplx", "expand_coeffs_cython"):
        k = K[name]
        n = 0
        for e in k.ev.events:
            for val in (e.value, e.target):
                if val is None:
                    continue
                for a in find_atoms(val, lambda a: a[0] == "sub" and k.rootmap.get(a[1].key()) in ("coeffs", "cout")
                                    and len(a[2]) == 1):
                    roles = packed_roles(e.loops)
                    if roles is None:
                        continue
                    mm, ll, LL, _ = roles
                    idx = a[2][0]
                    ok = idx == ll * (ll + 1) + mm or idx == ll * (ll + 1) - mm
                    n += 1
                    chk.ob("R07.1", k.rel, k.qual, "complex-layout access is at l(l+1) + m or l(l+1) - m", ok, node=e.node,
                           fingerprint=f"cplx-idx:{canon_lv(idx, e.loops)[0]}", expected=f"{ll * (ll + 1)} +- {mm}", found=str(idx))
        chk.need(n >= 2, f"{k.qual}: no complex-layout accesses found")


# ------------------------------------------------------------------------------------------------
def packed_accesses(k, names=("plm", "cin", "result")):
    """(event, atom, roles) for every subscript of the packed arrays inside range loops."""
    out = []
    seen = set()
    for e in k.ev.events:
        for val in (e.value, e.target):
            if val is None:
                continue
            for a in find_atoms(val, lambda a: a[0] == "sub" and k.rootmap.get(a[1].key()) in names and len(a[2]) == 1):
                sig = (id(e), a)
                if sig in seen:
                    continue
                seen.add(sig)
                out.append((e, a))
    return out


def r07_2(chk, K):
    real_layout = {"analysis_cython_real", "synthesis_cython_real", "analysis_pure_python", "synthesis_pure_python",
                   "_eval_at_points_real", "invariants_kazhdan"}
    for name, k in K.items():
        names = ("plm", "cin", "result") + (("coeffs",) if name in real_layout else ())
        acc = packed_accesses(k, names)
        chk.need(acc, f"{k.qual}: no packed-array accesses found")
        domains = set()
        for e, a in acc:
            roles = packed_roles(e.loops)
            if roles is None:
                raise AnalysisError(f"{k.rel}:{k.qual}: loop structure around a packed access is not an (m, l) nest")
            m, l, L, mr = roles
            idx = a[2][0]
            exp = packed_index(m, l, L)
            chk.ob("R07.2", k.rel, k.qual, f"packed access {k.rootmap.get(a[1].key())}[...] is at l + m(2L+1-m)/2",
                   idx == exp and L.key() == k.L.key(), node=e.node,
                   fingerprint=f"packed:{k.rootmap.get(a[1].key())}:{canon_lv(idx, e.loops)[0]}",
                   expected=str(exp), found=str(idx))
            domains.add((mr[0].key(), mr[1].key()))
            inner = range_loops(e.loops)[-1]
            chk.ob("R07.2", k.rel, k.qual, "the degree loop runs over l = m .. L", inner.lo == m and inner.hi == L + 1,
                   node=e.node, fingerprint=f"lrange:{canon_lv(inner.lo, e.loops)[0]}:{canon_lv(inner.hi, e.loops)[0]}",
                   expected=f"range({m}, {L + 1})", found=f"range({inner.lo}, {inner.hi})")
        # coverage of 0 <= m <= L : either [0, L+1) or {0} + [1, L+1)
        Lp1 = (k.L + 1).key()
        ok = domains == {("0", Lp1)} or domains == {("0", "1"), ("1", Lp1)}
        chk.ob("R07.2", k.rel, k.qual, "the (m, l) iteration covers 0 <= m <= l <= L exactly once", ok,
               fingerprint="coverage", expected=f"m in [0,{Lp1}) or {{0}} + [1,{Lp1})", found=sorted(domains))


# ------------------------------------------------------------------------------------------------
def kernel_canon(k, roots):
    extra = {("attr", P.name("self"), "lmax"): P.name("lmax"), ("attr", P.name("self"), "nphi"): P.name("nphi")}
    out = set()
    for u in k.updates(roots):
        if not range_loops(u.loops):
            continue
        for a in find_atoms(u.delta if u.delta is not None else u.value,
                            lambda a: a[0] == "sub" and a[1].key() == "self.weights"):
            extra[a] = P.name("w")
        out.add(canon_update(u, k, extra))
    return out


def r07_3(chk, K):
    pairs = [("analysis_cython_real", "analysis_pure_python", ("coeffs",)),
             ("analysis_cython_cplx", "analysis_pure_python_cplx", ("coeffs",)),
             ("synthesis_cython_real", "synthesis_pure_python", ("fft",)),
             ("synthesis_cython_cplx", "synthesis_pure_python_cplx", ("fft",)),
             ("pyx_batch", "py_batch", ("result", "cache"))]
    for a, b, roots in pairs:
        ka, kb = K[a], K[b]
        sa, sb = kernel_canon(ka, roots), kernel_canon(kb, roots)
        chk.need(sa and sb, f"no updates extracted for {a}/{b}")
        for s in sorted(sa | sb):
            ina, inb = s in sa, s in sb
            chk.ob("R07.3", ka.rel if ina else kb.rel, ka.qual if ina else kb.qual,
                   f"update present in both {ka.qual} and {kb.qual}: {s}", ina and inb,
                   fingerprint=f"{a}~{b}:{s}", expected="same update in the sibling implementation",
                   found=f"only in {ka.qual if ina else kb.qual}")


# ------------------------------------------------------------------------------------------------
def transfer_tuples(k, dst_root, src_root, weight=None):
    """{(coefficient index, fourier index, depth) : transfer factor} for delta = T * src[...] * plm[...] (* w)."""
    out = {}
    for u in k.updates((dst_root,)):
        if u.delta is None or not range_loops(u.loops):
            continue
        src = [a for a in find_atoms(u.delta, lambda a: a[0] == "sub" and k.rootmap.get(a[1].key()) == src_root)]
        plm = [a for a in find_atoms(u.delta, lambda a: a[0] == "sub" and k.rootmap.get(a[1].key()) == "plm")]
        if len(src) != 1 or len(plm) != 1:
            raise AnalysisError(f"{k.qual}: update is not a single product of {src_root} and plm: {u.describe()}")
        T = u.delta / (P.atom(src[0]) * P.atom(plm[0]))
        for a in find_atoms(T, lambda a: a[0] == "sub" and a[1].key() == "self.weights"):
            T = T.subs({a: P.name("w")})
        T, _ = canon_lv(T, u.loops)
        di, _ = canon_lv(u.index[0], u.loops)
        si, _ = canon_lv(src[0][2][0], u.loops)
        depth = len(range_loops(u.loops))
        sub = {("attr", P.name("self"), "nphi"): P.name("nphi"), ("attr", P.name("self"), "lmax"): P.name("lmax")}
        di, si = di.subs(sub), si.subs(sub)
        ci, fi = (di, si) if dst_root == "coeffs" else (si, di)
        out[(ci.key(), fi.key(), depth)] = T
    return out


def r07_4(chk, sht, K):
    for an, sy, real in (("analysis_cython_cplx", "synthesis_cython_cplx", False),
                         ("analysis_cython_real", "synthesis_cython_real", True),
                         ("analysis_pure_python_cplx", "synthesis_pure_python_cplx", False),
                         ("analysis_pure_python", "synthesis_pure_python", True)):
        ta = transfer_tuples(K[an], "coeffs", "fft")
        ts = transfer_tuples(K[sy], "fft", "coeffs")
        chk.need(ta and ts, f"{an}/{sy}: no transfer tuples")
        for key in sorted(set(ta) | set(ts)):
            A, S = ta.get(key), ts.get(key)
            ok = A is not None and S is not None
            exp = None
            if ok:
                exp = A / P.name("w")
                if real and key[2] == 2:
                    exp = exp * 2
                ok = exp == S
            chk.ob("R07.4", K[sy].rel, K[sy].qual,
                   f"transfer (coefficient {key[0]}, Fourier {key[1]}): synthesis phase = analysis phase" +
                   (" x 2 for m > 0" if real and key[2] == 2 else ""), ok, fingerprint=f"{an}~{sy}:{key}",
                   expected=str(exp) if exp is not None else f"tuple present in both (analysis: {A}, synthesis: {S})",
                   found=str(S))
        # complex paths: -m lives at Fourier index nphi - m
        if not real:
            neg = [k for k in ta if "nphi" in k[1]]
            chk.ob("R07.4", K[an].rel, K[an].qual, "negative m uses Fourier index nphi - m",
                   bool(neg) and all(k[1] == (P.name("nphi") - P.atom(("role", "v1"))).key() and
                                     k[0] == (P.atom(("role", "v0")) * (P.atom(("role", "v0")) + 1) - P.atom(("role", "v1"))).key()
                                     for k in neg), fingerprint=f"{an}:negm", found=str(neg))
    # real synthesis takes the real part
    for q in ("SHT.synthesis", "SHT.synthesis_pure_python"):
        ev = sht.ev(q)
        stores = [e for e in ev.events if e.kind == "store" and e.target.as_atom() and e.target.as_atom()[0] == "sub"
                  and "values" in e.target.key()]
        chk.need(stores, f"{q}: store into values not found")
        for e in stores:
            is_real = ".real" in e.value.key()
            want = True
            for c, pol in e.guards:
                if c.key().startswith("(eq coeffs.size self.nplm())") or "nplm" in c.key():
                    want = pol
            chk.ob("R07.4", SHT, q, f"the {'real' if want else 'complex'} synthesis stores "
                   f"{'the real part of ' if want else ''}the inverse FFT row", is_real == want, node=e.node,
                   fingerprint=f"realpart:{want}", found=str(e.value))


# ------------------------------------------------------------------------------------------------
def r07_5(chk, pyx, al, K):
    specs = [
        (pyx, PYX, "alm", ("l", "m"), "a"), (al, AL, "AssocLegendre._amn", ("n", "m"), "a"),
        (pyx, PYX, "blm", ("l", "m"), "b"), (al, AL, "AssocLegendre._bmn", ("n", "m"), "b"),
    ]
    for mod, rel, q, _, kind in specs:
        ev = mod.ev(q)
        chk.saw(rel, q)
        fn = mod.func(q)
        pn = ev.param_names
        # which parameter is the degree: the cython functions are (l, m), the python ones (m, n)
        if q in ("alm", "blm"):
            l, m = P.name(pn[0]), P.name(pn[1])
        else:
            m, l = P.name(pn[0]), P.name(pn[1])
        v = ev.returns[0].value
        if kind == "a":
            ref = (4 * l * l - 1) / (l * l - m * m)
            sign = 1
        else:
            ref = (2 * l + 1) * ((l - 1) * (l - 1) - m * m) / ((2 * l - 3) * (l * l - m * m))
            sign = -1
        sq = P.atom(("call", P.name("sqrt"), (ref,)))
        chk.ob("R07.5", rel, q, f"{'a' if kind == 'a' else 'b'}_lm squared equals the orthonormal value"
               + (" and b_lm is negative" if kind == "b" else ""), v == sign * sq, node=fn,
               expected=str(sign * sq), found=str(v))
    for mod, rel, q in ((pyx, PYX, "amm"), (al, AL, "AssocLegendre._amm")):
        ev = mod.ev(q)
        chk.saw(rel, q)
        # a = 1; for k in 1..|m|: a *= (2k+1)/(2k); return sqrt(a/(4 pi))
        aug = [e for e in ev.events if e.kind == "assign" and e.extra.get("aug") == "Mult" and e.loops]
        okr = False
        okrange = False
        if len(aug) == 1:
            k = aug[0].loops[-1].index
            okr = aug[0].extra["delta"] == (2 * k + 1) / (2 * k)
            lo, hi = aug[0].loops[-1].lo, aug[0].loops[-1].hi
            mname = ev.param_names[0]
            okrange = lo == P.const(1) and hi.key() in (f"1 + abs({mname})", f"1 + {mname}")
            init = aug[0].extra["old"].as_atom()
            okr = okr and bool(init and init[0] == "lc" and init[3] == P.const(1))
        chk.ob("R07.5", rel, q, "a_mm^2 * 4 pi is the product over k = 1..m of (2k+1)/(2k), starting from 1", okr and okrange,
               found=str(aug[0].extra["delta"]) if aug else None)
        v = ev.returns[0].value.as_atom()
        okf = False
        if v and call_name(v) == "sqrt":
            arg = v[2][0]
            aa = [a for a in arg.atoms() if a[0] == "after"]
            okf = len(aa) == 1 and arg == P.atom(aa[0]) / (4 * PI)
        chk.ob("R07.5", rel, q, "a_mm = sqrt(product / (4 pi))", okf, found=str(ev.returns[0].value))
    # compute_ab fills the tables with those functions
    for mod, rel, q, fa, fl, fb, order in ((pyx, PYX, "compute_ab", "amm", "alm", "blm", "lm"),
                                           (al, AL, "AssocLegendre._compute_ab", "._amm", "._amn", "._bmn", "ml")):
        ev = mod.ev(q)
        chk.saw(rel, q)
        got = {}
        for u in updates_of(ev):
            if u.value is None:
                continue
            va = u.value.as_atom()
            if not va or va[0] != "call":
                continue
            ra = u.root.as_atom()
            rname = ra[1] if ra and ra[0] == "obj" else u.root.key()
            got[(rname, tuple(i.key() for i in canon_idx(u)), call_name(va))] = \
                tuple(canon_lv(x, u.loops)[0].key() for x in va[2])
        a_name, b_name = ("a", "b")
        v0, v1 = P.atom(("role", "v0")).key(), P.atom(("role", "v1")).key()
        exp = {
            (a_name, (v0, v0), fa): (v0,),
            (a_name, (v0, v1), fl): (v0, v1) if order == "lm" else (v1, v0),
            (b_name, (v0, v1), fb): (v0, v1) if order == "lm" else (v1, v0),
        }
        chk.ob("R07.5", rel, q, "a[m,m] = amm(m); a[l,m] = alm(l,m), b[l,m] = blm(l,m) for l = m+1..L",
               got == exp, expected=str(exp), found=str(got))
        rl = [l for l in ev.all_loops if l.kind == "range"]
        ok = len(rl) == 2 and rl[0].lo == P.const(0) and rl[1].lo.key() in (f"1 + abs({rl[0].index})", f"1 + {rl[0].index}") \
            and rl[0].hi == rl[1].hi
        chk.ob("R07.5", rel, q, "the tables are filled for m = 0..L and l = m+1..L", ok,
               found=[f"[{l.lo},{l.hi})" for l in rl])
    # three-term recurrence (checked on the compiled version; R07.3 ties the Python one to it)
    k = K["pyx_batch"]
    ups = [u for u in k.updates(("result",))]
    chk.need(len(ups) == 3, "evaluate_batch_cython: expected three result stores")
    forms = {}
    for u in ups:
        m, l, L, _ = packed_roles(u.loops)
        a = P.atom(("sub", P.atom(("attr", P.name("self"), "a")), (l, m)))
        b = P.atom(("sub", P.atom(("attr", P.name("self"), "b")), (l, m)))
        c1 = P.atom(("sub", P.atom(("attr", P.name("self"), "cache")), (l - 1, m)))
        c2 = P.atom(("sub", P.atom(("attr", P.name("self"), "cache")), (l - 2, m)))
        x = P.name("x")
        g = [(c.key(), pol) for c, pol in u.guards if _mentions(c, l.as_atom())]
        eq_lm = compare("Eq", l, m).key()
        eq_lm1 = compare("Eq", l, m + 1).key()
        v = u.value
        if (eq_lm, True) in g:
            pw = P.atom(("bin", "Pow", 1 - x * x, m / 2))
            forms["l==m"] = v == a * pw
        elif (eq_lm, False) in g and (eq_lm1, True) in g:
            forms["l==m+1"] = v == a * x * c1
        elif (eq_lm, False) in g and (eq_lm1, False) in g:
            forms["else"] = v == a * x * c1 + b * c2
    chk.ob("R07.5", PYX, k.qual, "P_mm = a_mm (1-x^2)^(m/2)", forms.get("l==m") is True, fingerprint="rec:mm", found=str(forms))
    chk.ob("R07.5", PYX, k.qual, "P_(m+1)m = a x P_mm", forms.get("l==m+1") is True, fingerprint="rec:m+1", found=str(forms))
    chk.ob("R07.5", PYX, k.qual, "P_lm = a_lm x P_(l-1)m + b_lm P_(l-2)m", forms.get("else") is True, fingerprint="rec:lm", found=str(forms))
    cache = [u for u in k.updates(("cache",))]
    okc = len(cache) == 1 and cache[0].value is not None and packed_roles(cache[0].loops) is not None
    if okc:
        m, l, L, _ = packed_roles(cache[0].loops)
        okc = cache[0].index[0] == l and cache[0].index[1] == m and \
            cache[0].value == P.atom(("sub", P.name("result"), (packed_index(m, l, L),)))
    chk.ob("R07.5", PYX, k.qual, "every value is remembered in cache[l, m] for the next degrees", okc,
           found=cache[0].describe() if cache else None)


def canon_idx(u):
    return [canon_lv(i, u.loops)[0] for i in u.index]


# ------------------------------------------------------------------------------------------------
def r07_6(chk, K):
    k = K["expand_coeffs_cython"]
    ups = k.updates(("cout",))
    chk.need(len(ups) == 2, "expand_coeffs_cython: expected two stores into the output")
    for u in ups:
        m, l, L, _ = packed_roles(u.loops)
        src = P.atom(("sub", P.name("cin"), (packed_index(m, l, L),)))
        if u.index[0] == l * (l + 1) + m:
            chk.ob("R07.6", PYX, k.qual, "c(l, m) is copied from the packed vector", u.value == src, node=u.event.node,
                   fingerprint="pos", expected=str(src), found=str(u.value))
            unguarded = not any(_mentions(c, m.as_atom()) for c, _ in u.guards)
            chk.ob("R07.6", PYX, k.qual, "c(l, m) is written for every m including 0", unguarded, fingerprint="pos-unguarded")
        elif u.index[0] == l * (l + 1) - m:
            S = P.atom(("parity", m))
            conj = P.atom(("call", P.atom(("attr", src, "conjugate")), ()))
            chk.ob("R07.6", PYX, k.qual, "c(l, -m) = (-1)^m conj c(l, m)", u.value == S * conj, node=u.event.node,
                   fingerprint="neg", expected=str(S * conj), found=str(u.value))
            g = [(c.key(), pol) for c, pol in u.guards]
            chk.ob("R07.6", PYX, k.qual, "the mirrored entry is written only for m != 0",
                   guard_holds(u.guards, compare("NotEq", m, P.const(0))), fingerprint="neg-guard", found=str(g))
        else:
            chk.ob("R07.6", PYX, k.qual, "store index is l(l+1) +- m", False, fingerprint=f"idx:{u.index[0]}", found=str(u.index[0]))


# ------------------------------------------------------------------------------------------------
def legendre_refresh(chk, sht):
    """Typestate of the Legendre work array: in every SHT method that reads self.plm_work_array (or hands the object to a compiled kernel,
    which reads it), the associated Legendre functions are evaluated INTO that array, at the cos(theta) of the ring being processed, before
    the first read of the ring - a missing or misplaced evaluation leaves the values of the previous ring (or of a previous call) in place."""
    for fn in sht.methods("SHT"):
        q = f"SHT.{fn.name}"
        if "plm_work_array" not in ast.unparse(fn) or fn.name == "__init__":
            continue
        ev = sht.ev(q)
        evals, reads = [], []
        for i, e in enumerate(ev.events):
            if e.value is None:
                continue
            k = e.value.key()
            a = e.value.as_atom()
            if e.kind == "call" and e.target is not None and e.target.key().endswith(".evaluate_batch"):
                kw = dict(e.extra["kwargs"])
                res = kw.get("result") or (e.extra["args"][1] if len(e.extra["args"]) > 1 else None)
                if res is not None and res.key() == "self.plm_work_array":
                    evals.append((i, e))
                continue
            if e.kind == "call" and "kernel" in (e.target.key() if e.target is not None else "") and any(x.key() == "self" for x in e.extra.get("args", ())):
                reads.append((i, e))
            elif e.kind in ("assign", "aug", "store", "return") and "self.plm_work_array" in k:
                if e.kind == "assign" and k == "self.plm_work_array":
                    continue            # a local name for the work array reads none of its entries
                reads.append((i, e))
        if not reads:
            continue
        chk.saw(SHT, q)
        first = reads[0]
        ring = first[1].loops[0] if first[1].loops else None
        # the evaluation that serves a read: earlier in the same pass of the outermost loop that encloses both (or before any loop)
        ok = False
        arg_ok = False
        for i, e in evals:
            same_pass = all(any(l.k == m.k for m in first[1].loops) for l in e.loops)
            if i < first[0] and same_pass:
                ok = True
                x = e.extra["args"][0]
                inner = e.loops[-1] if e.loops else None
                arg_ok = (inner is not None and inner.index is not None and x.key() in (f"self.cos_theta[{inner.index.key()}]",)) or \
                    (inner is None and (x.key().startswith("cos(") or x.as_atom() and x.as_atom()[0] == "name"))
        # ... once per ring: inside the loop over the rings, not hoisted out of it
        per_ring = True
        if ok and any(l.kind == "enumerate" and l.iter is not None and l.iter.key() == "self.cos_theta" for l in first[1].loops):
            ring_k = [l.k for l in first[1].loops if l.iter is not None and l.iter.key() == "self.cos_theta"][0]
            per_ring = any(i < first[0] and any(l.k == ring_k for l in e.loops) for i, e in evals)
        chk.ob("R07.7", SHT, q, "the associated Legendre functions are evaluated into the work array, at the cos(theta) of the current ring, before the "
               "ring's first read of it (in every pass of the ring loop)", ok and arg_ok and per_ring, node=first[1].node, fingerprint=f"legendre-refresh:{q}",
               expected="self.plm.evaluate_batch(cos_theta[ring], result=self.plm_work_array) before the reads",
               found=f"{len(evals)} evaluation(s) into the work array, first read at line {first[1].lineno}: preceded {ok}, argument {arg_ok}, per ring {per_ring}")


def r07_7(chk, sht):
    legendre_refresh(chk, sht)
    norms = set()
    pairing = []
    for q in ("SHT.analysis", "SHT.synthesis", "SHT.analysis_pure_python", "SHT.analysis_pure_python_cplx",
              "SHT.synthesis_pure_python", "SHT.synthesis_pure_python_cplx", "SHT.invariants_kazhdan"):
        ev = sht.ev(q)
        for e in ev.events:
            if e.kind != "call":
                continue
            n = call_name(e.value.as_atom() or ())
            if n in ("scipy.fft.fft", "scipy.fft.ifft", "numpy.fft.fft", "numpy.fft.ifft"):
                kw = dict(e.extra["kwargs"])
                norm = kw.get("norm")
                norms.add(norm.key() if norm is not None else "default")
                kind = n.rsplit(".", 1)[1]
                want = "fft" if "analysis" in q else "ifft"
                pairing.append((q, kind, want))
                chk.ob("R07.7", SHT, q, f"{q.split('.')[1]} uses {want}", kind == want, node=e.node,
                       fingerprint=f"pair:{q}", found=kind)
                arg = e.extra["args"][0].key() if e.extra["args"] else None
                chk.ob("R07.7", SHT, q, "the transform is applied in place to the FFT work array",
                       arg == "self.fft_work_array" and kw.get("overwrite_x") is not None, node=e.node,
                       fingerprint=f"inplace:{q}", found=arg)
    chk.need(len(pairing) >= 7, "expected fft/ifft calls in 7 SHT methods")
    chk.ob("R07.7", SHT, "SHT", "all fft/ifft calls use one and the same norm", len(norms) == 1, expected="one norm",
           found=sorted(norms))
    ev = sht.ev("SHT.__init__")
    # final value of self.weights: the stored Gauss-Legendre weights times every in-place factor, compared with 4 pi w / (total weight),
    # the total being the third result of the same roots_legendre(..., mu=True) call (directly or through self.total_weight)
    wt = None
    total = None
    for e in ev.events:
        if e.kind == "store" and e.target.key() == "self.weights":
            wt = e.value
        if e.kind == "store" and e.target.key() == "self.total_weight":
            total = e.value
        if e.kind == "aug" and e.target.key() == "self.weights" and wt is not None:
            wt = wt * e.value if e.op == "Mult" else (wt / e.value if e.op == "Div" else None)
    tw = P.atom(("attr", P.name("self"), "total_weight"))
    okw = False
    rl = None
    if wt is not None and total is not None:
        ta = total.as_atom()
        if ta and ta[0] == "sub" and call_name(ta[1].as_atom() or ()) == "scipy.special.roots_legendre" and ta[2] == (P.const(2),):
            rl = ta[1]
            w0 = P.atom(("sub", rl, (P.const(1),)))
            okw = wt == 4 * PI * w0 / tw or wt == 4 * PI * w0 / total
    chk.ob("R07.7", SHT, "SHT.__init__", "weights are rescaled by 4 pi / total weight", okw,
           expected=f"4*pi*{rl}[1] / {rl}[2]", found=str(wt))
    phi = None
    ntheta = None
    for e in ev.events:
        if e.kind == "store" and e.target.key() == "self.phi":
            phi = e.value
        if e.kind == "store" and e.target.key() == "self.ntheta" and any("ntheta" in c.key() and pol for c, pol in e.guards):
            ntheta = e.value
        if e.kind == "store" and e.target.key() == "self.ntheta" and e.value.as_atom() and e.value.as_atom()[0] == "ite" \
                and "ntheta" in e.value.as_atom()[1].key() and e.value.as_atom()[1].as_atom() and e.value.as_atom()[1].as_atom()[0] == "is":
            # self.ntheta = <default> if ntheta is None else ntheta
            ntheta = e.value.as_atom()[2]
    nphi = P.atom(("attr", P.name("self"), "nphi"))
    ar = P.atom(("call", P.name("numpy.arange"), (P.const(0), nphi)))
    ar1 = P.atom(("call", P.name("numpy.arange"), (nphi,)))
    okphi = phi is not None and (phi == ar * 2 * PI / nphi or phi == ar1 * 2 * PI / nphi)
    if not okphi and phi is not None:
        # the same grid written with the value that is stored as self.nphi (a local) instead of the attribute
        for e in ev.events:
            if e.kind == "store" and e.target.key() == "self.nphi" and not e.guards:
                nv = e.value
                okphi = okphi or phi == P.atom(("call", P.name("numpy.arange"), (P.const(0), nv))) * 2 * PI / nv \
                    or phi == P.atom(("call", P.name("numpy.arange"), (nv,))) * 2 * PI / nv
    chk.ob("R07.7", SHT, "SHT.__init__", "phi = arange(nphi) * 2 pi / nphi", okphi, found=str(phi))
    # default nphi: helper(2 L + 1) with a helper that never returns less than it is asked for  =>  nphi >= 2 L + 1
    nst = [e for e in ev.events if e.kind == "store" and e.target.key() == "self.nphi" and any("nphi" in c.key() and pol for c, pol in e.guards)]
    if not nst:
        # self.nphi = <default> if nphi is None else nphi
        import copy as _copy
        for e in ev.events:
            va = e.value.as_atom() if e.kind == "store" and e.target.key() == "self.nphi" else None
            if va and va[0] == "ite" and "nphi" in va[1].key() and va[1].as_atom() and va[1].as_atom()[0] == "is":
                e2 = _copy.copy(e)
                e2.value = va[2]
                nst = [e2]
    if nst:
        from ..lowerbound import returns_at_least_argument
        va = nst[0].value.as_atom()
        lmp = ev.param_names[1]
        arg_ok = bool(va and va[0] == "call" and len(va[2]) == 1 and (va[2][0] == 2 * P.name(lmp) + 1 or va[2][0] == 2 * P.atom(("attr", P.name("self"), "lmax")) + 1))
        hname = call_name(va).split(".")[-1] if va and va[0] == "call" and call_name(va) else None
        if va and va[0] == "call" and hname in sht.funcs:
            verdict, detail = returns_at_least_argument(sht.funcs[hname], {k: v for k, v in sht.funcs.items() if "." not in k})
            chk.saw(SHT, hname)
            if verdict is None:
                raise AnalysisError(f"{SHT}:{hname}: 'result >= argument' is outside the decidable fragment: {detail}")
            chk.ob("R07.7", SHT, hname, "the FFT-length helper only rounds up: every return is at least the requested length "
                   "(abstract interpretation of the helper, sa/lowerbound.py), so the default nphi >= 2 lmax + 1 and no order |m| <= lmax aliases",
                   verdict, node=sht.funcs[hname], fingerprint="nphi-roundup", expected="result >= n on every path", found=detail[:3])
            chk.ob("R07.7", SHT, "SHT.__init__", "the helper is asked for 2 lmax + 1 longitudes", arg_ok, fingerprint="nphi-request", found=str(nst[0].value)[:100])
        elif va is not None and (nst[0].value == 2 * P.name(lmp) + 1):
            chk.ob("R07.7", SHT, "SHT.__init__", "the default nphi is 2 lmax + 1", True, fingerprint="nphi-request")
        else:
            raise AnalysisError(f"{SHT}:SHT.__init__: the default nphi is not a call of a module-level helper: {str(nst[0].value)[:100]}")
    # ntheta >= lmax + 1: a lower bound relative to L + 1 is propagated through the expression (lmax >= 0):
    #   a*lmax + b (a >= 1)  >=  (L+1) + b - 1;   k*((y)//k)  >=  y - (k-1);   x + (x & 1)  >=  x;   max(..)  >=  each argument
    steps = []
    L1 = P.atom(("attr", P.name("self"), "lmax")) + 1
    LM = P.atom(("attr", P.name("self"), "lmax"))

    def lb(t, depth=0):
        """c with t >= (L + 1) + c, or None."""
        if t is None or depth > 8:
            return None
        d = t - L1
        if d.const_value() is not None:
            return d.const_value()
        if t.is_poly():
            # affine in lmax with slope >= 1
            try:
                slope = (t.subs({LM.as_atom(): P.const(1)}) - t.subs({LM.as_atom(): P.const(0)})).const_value()
                icpt = t.subs({LM.as_atom(): P.const(0)}).const_value()
                if slope is not None and icpt is not None and slope >= 1 and (t - slope * LM - icpt).is_zero():
                    return icpt - 1
            except Exception:      # noqa: BLE001
                pass
            if len(t.n) == 1 and not t.d_is_one() if hasattr(t, "d_is_one") else False:
                return None
            if len(t.n) == 1:
                (mono, c), = t.n.items()
                if len(mono) == 1 and mono[0][1] == 1 and c.denominator == 1 and c > 0:
                    at = mono[0][0]
                    if at[0] == "bin" and at[1] == "FloorDiv" and at[3] == P.const(c):
                        inner = lb(at[2], depth + 1)
                        steps.append(f"round down to a multiple of {c}")
                        return None if inner is None else inner - (int(c) - 1)
            for at in t.atoms():
                if at[0] == "bin" and at[1] == "BitAnd" and at[3].const_value() is not None and at[3].const_value() >= 0:
                    rest = t - P.atom(at)
                    if not any(x == at for x in rest.atoms()):
                        steps.append("plus a non-negative bit mask")
                        return lb(rest, depth + 1)
        ta = t.as_atom()
        if ta and ta[0] == "call" and call_name(ta) in ("max", "numpy.maximum") and ta[2]:
            vals = [lb(x, depth + 1) for x in ta[2]]
            vals = [v for v in vals if v is not None]
            steps.append("max")
            return max(vals) if vals else None
        if ta and ta[0] == "call" and call_name(ta) in ("min", "numpy.minimum") and ta[2]:
            vals = [lb(x, depth + 1) for x in ta[2]]
            steps.append("min")
            return None if any(v is None for v in vals) else min(vals)
        if ta and ta[0] == "call" and call_name(ta) == "int" and len(ta[2]) == 1:
            return lb(ta[2][0], depth + 1)
        return None
    # self.lmax = <parameter>: the parameter and the attribute are the same number
    for e in ev.events:
        if e.kind == "store" and e.target.key() == "self.lmax" and not e.guards and e.value.as_atom() and e.value.as_atom()[0] == "name" \
                and ntheta is not None:
            ntheta = ntheta.subs({e.value.as_atom(): LM})
    bound = lb(ntheta)
    ok = bound is not None and bound >= 0
    chk.ob("R07.7", SHT, "SHT.__init__", "the default ntheta is lmax + 1 rounded up (never down), so ntheta >= L + 1", ok,
           expected="ntheta >= self.lmax + 1 for every lmax >= 0", found=f"{ntheta}: " + (f"ntheta >= L + 1 + ({bound})" if bound is not None else "no lower bound relative to L + 1 could be derived") + f" (steps: {steps})")


def _sizes_of(term, attr_sizes, real_branch, q):
    """[(real layout?, size key)] of an allocation, through *_like / copy, instance buffers sized in __init__ and a real/complex choice."""
    a = term.as_atom()
    if a and a[0] == "ite":
        c = a[1]
        if "iscomplexobj" not in c.key():
            raise AnalysisError(f"{q}: coefficient vector chosen by an unrecognised condition {c}")
        neg = bool(c.as_atom() and c.as_atom()[0] == "not")
        return _sizes_of(a[2], attr_sizes, neg, q) + _sizes_of(a[3], attr_sizes, not neg, q)
    if a and a[0] == "obj":
        return _sizes_of(a[3], attr_sizes, real_branch, q)
    if a and a[0] == "attr" and a[1].key() == "self":
        if a[2] not in attr_sizes:
            raise AnalysisError(f"{q}: size of self.{a[2]} is not set in SHT.__init__")
        return [(real_branch, attr_sizes[a[2]])]
    if a and a[0] == "call":
        cn = call_name(a)
        if cn in ("numpy.zeros", "numpy.empty", "numpy.ones", "numpy.full") and a[2]:
            sa_ = a[2][0].as_atom()
            if sa_ and sa_[0] == "ite" and "iscomplexobj" in sa_[1].key():
                # one allocation whose length is chosen by the layout:  np.zeros(nlm if complex else nplm)
                neg = bool(sa_[1].as_atom() and sa_[1].as_atom()[0] == "not")
                return [(neg, sa_[2].key()), (not neg, sa_[3].key())]
            return [(real_branch, a[2][0].key())]
        if cn in ("numpy.zeros_like", "numpy.empty_like", "numpy.ones_like", "numpy.copy", "numpy.array") and a[2]:
            return _sizes_of(a[2][0], attr_sizes, real_branch, q)
        if cn in (".copy", ".astype"):
            return _sizes_of(a[1].as_atom()[1], attr_sizes, real_branch, q)
    raise AnalysisError(f"{q}: unrecognised allocation of the coefficient vector: {str(term)[:100]}")


# ------------------------------------------------------------------------------------------------ R07.8
def r07_8_linear(chk, sht):
    """Linearity, homogeneity and Parseval need the coefficients to leave analysis() exactly as the kernel accumulated them:
    no thresholding, rounding or clean-up of small values afterwards (an absolute cut-off is not homogeneous)."""
    for q in ("SHT.analysis", "SHT.analysis_pure_python", "SHT.analysis_pure_python_cplx", "SHT.synthesis", "SHT.synthesis_pure_python",
              "SHT.synthesis_pure_python_cplx"):
        if q not in sht.funcs:
            continue
        ev = sht.ev(q)
        ret = ev.returns[-1].value
        root = ret.as_atom()
        bad = []
        for e in ev.events:
            if e.kind not in ("store", "aug"):
                continue
            t = e.target.as_atom()
            if not (t and t[0] == "sub" and len(t[2]) == 1):
                continue
            idx = t[2][0]
            if find_atoms(idx, lambda a: a[0] in ("lt", "le", "eq", "ne")) and ("coeffs" in e.target.key() or "values" in e.target.key()):
                bad.append(f"line {e.lineno}: {str(e.target)[:80]} = {e.value}")
        chk.ob("R07.8", SHT, q, "the result is not thresholded or cleaned up after the transform (no masked overwrite by magnitude)", not bad,
               fingerprint="no-threshold", found=bad[:2])
        # the grid / coefficient array the transform fills has a dtype of its own: taken from the input (dtype=coeffs.dtype, zeros_like) a
        # real-typed input drops the imaginary parts that are stored into it
        from .generic import dtype_inheritance_sites
        roots = {p_ for p_ in ev.param_names[1:]}
        sites = dtype_inheritance_sites(ev, roots)
        chk.ob("R07.8", SHT, q, "the array the transform fills has a dtype of its own (not inherited from the argument: computed complex values would "
               "be truncated to the input's type)", not sites, node=sites[0][0].node if sites else None, fingerprint="own-dtype",
               expected="np.zeros(shape, dtype=np.complex128) / np.zeros(shape)", found=[w for _, w in sites][:2])
        if "analysis" in q:
            # ring itheta of the function is row itheta of the argument as given: a transposed / reshaped / conditionally rearranged copy
            # reads other samples (and a test on the shape cannot tell (ntheta, nphi) from (nphi, ntheta) on a square grid)
            par = ev.param_names[1]
            loads = [e for e in ev.events if e.kind == "store" and e.target.key().startswith("self.fft_work_array") and e.loops]
            okl = bool(loads)
            fl = []
            for e in loads:
                va = e.value.as_atom()
                base = va[1] if va and va[0] == "sub" else None
                ok1 = base is not None and base.key() == par and len(va[2]) in (1, 2) and va[2][0].key() == e.loops[0].index.key()
                okl = okl and ok1
                if not ok1:
                    fl.append(str(e.value)[:120])
            chk.ob("R07.8", SHT, q, "ring i of the transform is row i of the grid the caller passed (the argument is not transposed or rearranged first)",
                   okl, fingerprint="ring-load", expected=f"{par}[itheta, :]", found=fl[:2])


def r07_8(chk, sht):
    r07_8_linear(chk, sht)
    r07_8_sampling(chk, sht)
    """A second transform must not overwrite the result of the first (linearity, round trips and Parseval all compare two results)."""
    from ..effects import alias_path
    from ..inline import KNOWN
    known = set(KNOWN.get(sht.rel, ()))
    for fn in sht.methods("SHT"):
        if fn.name.startswith("__") or sht.is_property(fn):
            continue
        if fn.name.startswith("_") and known and f"SHT.{fn.name}" not in known:
            # a private helper a refactoring introduced: it is expanded into the public methods that call it, whose results are checked here
            continue
        ev = sht.ev(f"SHT.{fn.name}")
        vals = [r for r in ev.returns if r.value is not None]
        if not vals:
            continue
        chk.saw(SHT, f"SHT.{fn.name}")
        al = [(r, alias_path(r.value)) for r in vals]
        bad = [(r, a) for r, a in al if a is not None]
        chk.ob("R07.8", SHT, f"SHT.{fn.name}", "the returned array is not an instance attribute (work array) or a view of one", not bad,
               node=bad[0][0].node if bad else fn, fingerprint="fresh", expected="a newly allocated result per call",
               found=f"returns self.{bad[0][1]}: {str(bad[0][0].value)[:100]}" if bad else None)


def r07_8_sampling(chk, sht):
    """compute_on_grid is the sampler in front of analysis: a complex-valued function must arrive as complex samples (analysis
    chooses the real or the complex transform by the dtype), so the samples must not be copied into a buffer of a fixed real dtype."""
    q = "SHT.compute_on_grid"
    if q not in sht.funcs:
        return
    ev = sht.ev(q)
    chk.saw(SHT, q)
    fpar = ev.param_names[1]
    ret = ev.returns[-1].value
    a = ret.as_atom()
    while a and a[0] == "call" and call_name(a) in ("numpy.asarray", "numpy.ascontiguousarray", "numpy.asanyarray", "numpy.array") and len(a[2]) == 1 \
            and not (len(a) > 3 and a[3] and any(k == "dtype" for k, _ in a[3])):
        a = a[2][0].as_atom()
    direct = bool(a and a[0] == "call" and isinstance(a[1], P) and a[1].key() == fpar)
    fixed = None
    if not direct and a and a[0] == "obj":
        init = a[3].as_atom()
        if init and call_name(init) in ("numpy.empty", "numpy.zeros", "numpy.ones", "numpy.empty_like", "numpy.zeros_like"):
            kw = dict(init[3]) if len(init) > 3 and init[3] else {}
            dt = kw.get("dtype")
            dtk = dt.key() if dt is not None else "float64 (default)"
            if "complex" not in dtk and ".dtype" not in dtk:
                fixed = f"{call_name(init)}(..., dtype={dtk})"
    if not direct and fixed is None:
        raise AnalysisError(f"{SHT}:{q}: the returned samples are neither func(*grid) nor a recognised buffer: {str(ret)[:120]}")
    chk.ob("R07.8", SHT, q, "the samples handed to analysis keep the dtype the function returned (a complex-valued function is not written "
           "into a buffer of a fixed real dtype, which drops the imaginary part and selects the real transform)", direct, node=ev.returns[-1].node,
           fingerprint="sampling-dtype", expected=f"{fpar}(*self.grid)", found=fixed or str(ret)[:100])


# ------------------------------------------------------------------------------------------------ R07.9
def _lc_atoms(term: P, name=None):
    return [a for a in find_atoms(term, lambda a: a[0] == "lc" and (name is None or a[1] == name))]


def r07_9(chk, sht, K):
    """evaluate_at_points(c, theta, phi) must be  sum_k F[k](theta) exp(i k phi)  with F the Fourier row the synthesis builds
    (transfer tuples of R07.4), real part for the half layout.  Formulas written with .real/.imag/1j are split into exact
    (real, imaginary) polynomial pairs over cos(m phi), sin(m phi) and the parts of the accumulators (sa/cplx.py)."""
    from ..cplx import cx, NotDecidable
    for q, syn, real in (("SHT._eval_at_points_real", "synthesis_pure_python", True),
                         ("SHT._eval_at_points_cplx", "synthesis_pure_python_cplx", False)):
        ev = sht.ev(q)
        chk.saw(SHT, q)
        coeffs, theta, phi = [P.name(x) for x in ev.param_names[1:4]]
        ref = transfer_tuples(K[syn], "fft", "coeffs")
        lmax_sub = {("attr", P.name("self"), "lmax"): P.name("lmax")}
        rl_all = [l for l in ev.all_loops if l.kind == "range"]
        chk.need(len(rl_all) == 3, f"{q}: expected the m = 0 loop and the (m, l) nest, found {len(rl_all)} range loops")
        # --- accumulators: assignments inside loops whose value carries the loop-carried atom of the same name
        acc = {}
        for e in ev.events:
            if e.kind != "assign" or not e.loops or e.value is None:
                continue
            lcs = [a for a in _lc_atoms(e.value, e.name) if a[2] == e.loops[-1].k]
            if len(lcs) != 1:
                continue
            acc.setdefault((e.name, e.loops[-1].k), []).append((e, e.value - P.atom(lcs[0]), lcs[0]))
        # sign recurrence  sign = -sign  from 1, outer loop from 1  ->  value inside iteration m is (-1)^m
        sign_map = {}
        for (name, k), items in acc.items():
            for e, delta, lc in items:
                if (e.value + P.atom(lc)).is_zero() and lc[3].const_value() == 1 and e.loops[-1].lo == P.const(1):
                    sign_map[lc] = -P.atom(("parity", e.loops[-1].index))
        plm_root = "self.plm_work_array"

        def is_cplx(a):
            if a[0] == "sub" and a[1].key() == coeffs.key():
                return True
            if a[0] == "after" and any(a[1] == n for (n, _k) in inner):
                return True
            return False
        inner = {}
        outer = {}
        m0 = {}
        for (name, k), items in acc.items():
            e, delta, lc = items[0]
            if lc in sign_map or name in ("plm_idx", "sign"):
                continue
            depth = len([l for l in e.loops if l.kind == "range"])
            has_c = bool(find_atoms(delta, lambda a: a[0] == "sub" and a[1].key() == coeffs.key()))
            if depth == 2 and has_c:
                inner[(name, k)] = (e, delta.subs(sign_map))
            elif depth == 1 and has_c:
                m0[(name, k)] = (e, delta)
            elif depth == 1:
                outer[(name, k)] = (e, delta.subs(sign_map))
        chk.need(inner and outer and m0, f"{q}: accumulators not recognised (inner {sorted(inner)}, outer {sorted(outer)}, m=0 {sorted(m0)})")
        try:
            # --- inner accumulators: delta = f * c[ci] * plm[pi]
            fam = {}
            for (name, k), (e, delta) in inner.items():
                cs = find_atoms(delta, lambda a: a[0] == "sub" and a[1].key() == coeffs.key())
                ps = find_atoms(delta, lambda a: a[0] == "sub" and a[1].key() == plm_root)
                # a coefficient that enters conjugated is the function mirrored in phi (f(theta, -phi)): the synthesis uses the coefficient itself
                conj = [a for a in find_atoms(delta, lambda a: a[0] == "call" and call_name(a) in ("numpy.conj", "numpy.conjugate", ".conj", ".conjugate"))
                        if coeffs.key() in P.atom(a).key()]
                chk.ob("R07.10", SHT, q, "every coefficient enters the point value as it is stored (the synthesis does not conjugate it)", not conj,
                       node=e.node, fingerprint=f"no-conjugate:{name}", found=[str(P.atom(a))[:80] for a in conj][:1])
                if conj:
                    continue
                if len(cs) != 1 or len(ps) != 1:
                    raise NotDecidable(f"accumulator {name} is not a single product of a coefficient and a Legendre value: {delta}")
                f = delta / (P.atom(cs[0]) * P.atom(ps[0]))
                ci, _ = canon_lv(cs[0][2][0], e.loops)
                f, _ = canon_lv(f, e.loops)
                fam[name] = (ci.subs(lmax_sub).key(), f, e, k)
            mloop = [l for l in rl_all if any(l in e.loops and len([x for x in e.loops if x.kind == "range"]) == 1 for e, _ in outer.values())][0]
            mrole = P.atom(("role", "v1"))
            mvar = mloop.index
            # --- per-m contribution of the returned value
            ret = ev.returns[-1].value
            sub = {}
            for (name, k), (e, delta) in outer.items():
                sub[("after", name, k)] = delta
            for (name, k), (e, delta) in m0.items():
                sub[("after", name, k)] = P.const(0)
            contrib = ret.subs(sub)
            if _lc_atoms(contrib) or find_atoms(contrib, lambda a: a[0] == "after" and not any(a[1] == n for n in fam)):
                raise NotDecidable(f"the returned value is not a sum over m of accumulator terms: {str(contrib)[:160]}")
            got = cx(contrib, is_cplx)
            # --- expected from the synthesis transfer tuples
            exp_term = P.const(0)
            used = set()
            for (ci, fi, depth), T in ref.items():
                if depth != 2:
                    continue
                names = [n for n, (cik, f, e, k) in fam.items() if cik == ci]
                if len(names) != 1:
                    raise NotDecidable(f"no accumulator reads the coefficients {ci} of the synthesis tuple")
                n = names[0]
                used.add(n)
                cik, f, e, k = fam[n]
                freq = P.atom(("role", "v1")) if fi == "(role v1)" else -P.atom(("role", "v1")) if "nphi" in fi else None
                if freq is None:
                    raise NotDecidable(f"Fourier index {fi} of the synthesis is neither m nor nphi - m")
                back = {("role", "v1"): mvar}
                A = P.atom(("after", n, k)) / f.subs(back)
                E = P.atom(("call", P.name("exp"), (P.atom(("const", "1j")) * freq.subs(back) * phi,)))
                exp_term = exp_term + T.subs(back) * A * E
            want = cx(exp_term, is_cplx)
            if real:
                want = (want[0], P.const(0))
            rules = {("parity", mvar): P.const(1)}
            ok = (got[0] - want[0]).rewrite(rules).is_zero() and (got[1] - want[1]).rewrite(rules).is_zero()
            chk.ob("R07.10", SHT, q, "for m > 0 the point value is sum over m of [synthesis factor] x accumulator x exp(i k phi)"
                   + (" (real part)" if real else "") + ", with the Fourier index k of the synthesis", ok, node=ev.returns[-1].node,
                   fingerprint="pointwise:" + ("real" if real else "cplx"), expected=f"re: {want[0]} ; im: {want[1]}"[:400],
                   found=f"re: {got[0]} ; im: {got[1]}"[:400])
            chk.ob("R07.10", SHT, q, "every synthesis family of coefficients (+m, -m) is read by exactly one accumulator", used == set(fam),
                   fingerprint="families", found=f"{sorted(used)} of {sorted(fam)}")
            # --- m = 0 part
            for (name, k), (e, delta) in m0.items():
                g = cx(delta, is_cplx)
                ref0 = [(ci, T) for (ci, fi, depth), T in ref.items() if depth == 1]
                if len(ref0) != 1:
                    raise NotDecidable("m = 0 tuple of the synthesis not found")
                ci0, T0 = ref0[0]
                l0 = e.loops[-1].index
                civ = P.atom(("role", "v0"))
                cs = find_atoms(delta, lambda a: a[0] == "sub" and a[1].key() == coeffs.key())
                ps = find_atoms(delta, lambda a: a[0] == "sub" and a[1].key() == plm_root)
                if len(cs) != 1 or len(ps) != 1:
                    raise NotDecidable(f"m = 0 term is not a single product: {delta}")
                idx_ok = canon_lv(cs[0][2][0], e.loops)[0].key() == ci0 and ps[0][2][0].key() == l0.key()
                w = cx(T0 * P.atom(cs[0]) * P.atom(ps[0]), is_cplx)
                if real:
                    w = (w[0], P.const(0))
                chk.ob("R07.10", SHT, q, "the m = 0 part is sum over l of c(l,0) P(l,0)" + (" (real part)" if real else ""),
                       idx_ok and (g[0] - w[0]).is_zero() and (g[1] - w[1]).is_zero(), node=e.node, fingerprint="pointwise-m0",
                       expected=f"re: {w[0]} ; im: {w[1]}", found=f"re: {g[0]} ; im: {g[1]}")
        except NotDecidable as ex:
            raise AnalysisError(f"{SHT}:{q}: {ex}")
    for q_ in ("SHT._eval_at_points_real", "SHT._eval_at_points_cplx"):
        if q_ not in sht.funcs:
            continue
        ev_ = sht.ev(q_)
        full = ev_.returns[-1].value if ev_.returns else None
        others = [r for r in ev_.returns[:-1] if r.value is not None and full is not None and r.value.key() != full.key()]
        chk.ob("R07.10", SHT, q_, "every return of the point evaluator is the full sum over all orders m (a shortcut that returns the zonal part near "
               "a pole drops terms that are small there, not zero)", not others, node=others[0].node if others else None,
               fingerprint="pointwise:all-returns", found=[f"line {r.lineno}: return {str(r.value)[:80]} under {[str(c)[:50] for c, p in r.guards][-1:]}" for r in others][:2])
    dv = sht.ev("SHT.evaluate_at_points")
    chk.saw(SHT, "SHT.evaluate_at_points")
    rets = {tuple((c.key(), p) for c, p in r.guards): r.value.key() for r in dv.returns}
    cpar = dv.param_names[1]
    okd = any(v.startswith("self._eval_at_points_real(") and any(k == f"(eq {cpar}.size self.nplm())" and p for k, p in g) for g, v in rets.items()) and \
        any(v.startswith("self._eval_at_points_cplx(") and any(k == f"(eq {cpar}.size self.nplm())" and not p for k, p in g) for g, v in rets.items())
    chk.ob("R07.10", SHT, "SHT.evaluate_at_points", "the half layout goes to the real evaluator, the full layout to the complex one, with the same arguments",
           okd and all(v.endswith(f"({cpar}, {dv.param_names[2]}, {dv.param_names[3]})") for v in rets.values()), fingerprint="dispatch", found=str(rets)[:200])
