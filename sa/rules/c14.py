"""C14 — derived crystal data reflect the current state: memo inventory, invalidation, purity of queries."""
from __future__ import annotations

import ast

from ..core import AnalysisError
from ..poly import P
from ..symex import Ev, find_atoms, call_name, seq_items, MUTATORS
from ..effects import Effects, alias_path, property_hook
from .. import memo as MEMO
from .generic import string_value, dict_items

CR = "crystal/crystal.py"
STATE = ("unit_cell", "space_group", "asymmetric_unit")
ATTR_TYPES = {"Crystal": {"unit_cell": ("crystal/unit_cell.py", "UnitCell"), "space_group": ("crystal/space_group.py", "SpaceGroup"),
                          "asymmetric_unit": ("crystal/asymmetric_unit.py", "AsymmetricUnit")}}
# in-place methods of Molecule: computed from core/molecule.py, these names are only the payload attributes
MOL_PAYLOAD = {"positions", "elements", "labels", "atomic_numbers"}
MEMO_GETTERS = {"unit_cell_molecules", "symmetry_unique_molecules", "unit_cell_atoms", "unit_cell_connectivity"}


def run(chk):
    repo = chk.repo
    cr = repo.module(CR)
    chk.explanation = ("class Crystal: memo inventory from the hasattr/setattr idiom, write sets of every method on the three "
                       "state fields (through aliases, property accessors, typed attributes and callees), invalidation of every "
                       "memo after the last state store in each mutator, purity of all other methods including in-place use of "
                       "memoised payloads, read sets of memoising methods, and refresh of state-derived keys of the cached CIF dictionary.")
    chk.rule("R14.1", "memo inventory: attributes stored under a hasattr early return", 4)
    chk.rule("R14.2", "every method that may change cell, space group or asymmetric unit invalidates every memo afterwards", 2)
    chk.rule("R14.3", "every other method leaves the state fields and the payload of memoised objects untouched", 50)
    chk.rule("R14.4", "memoised values depend only on the three state fields", 4)
    chk.rule("R14.6", "repeating a query returns an equal result: no query returns an array allocated with np.empty that is only filled at "
                      "data-dependent positions (an entry no datum addresses is uninitialised memory)", 1)
    chk.rule("R14.5", "an exported CIF built from the cached dictionary refreshes every state-derived key", 8)
    fx = Effects(repo, ATTR_TYPES)
    methods = [m for m in cr.methods("Crystal")]
    memos = memo_inventory(chk, cr, methods)
    writes = {}
    for fn in methods:
        if is_classmethod(fn) or fn.name == "__init__":
            continue
        writes[fn.name] = fx.method_writes(CR, "Crystal", fn.name)
    mutators = {m: [w for w in ws if w.attr in STATE] for m, ws in writes.items()}
    mutators = {m: ws for m, ws in mutators.items() if ws}
    if chk.want("R14.1"):
        for name, (getter, node) in sorted(memos.items()):
            chk.ob("R14.1", CR, f"Crystal.{getter}", f"memo attribute {name} is stored by the same method that tests for it", True,
                   node=node, fingerprint=f"memo:{name}")
    if chk.want("R14.2"):
        r14_2(chk, cr, fx, memos, mutators)
        im = MEMO.instance_memos(cr, "Crystal")
        for name, info in sorted(im.items()):
            MEMO.check_memo_key(chk, "R14.2", CR, "Crystal", name, info)
        MEMO.check_partial_removals(chk, "R14.2", CR, "Crystal", im)
    if chk.want("R14.3"):
        r14_3(chk, cr, fx, methods, writes, mutators, memos)
    if chk.want("R14.4"):
        r14_4(chk, cr, methods, memos)
        getter_call_arguments(chk, cr, memos)
    if chk.want("R14.5"):
        r14_5(chk, cr, mutators, fx)
    if chk.want("R14.6"):
        r14_6(chk, cr, methods)
    chk.assume("aliasing through objects the caller keeps (mutating crystal.unit_cell from outside) is not decided")
    chk.assume("queries are always issued with the same arguments (the property excludes argument-dependent memo staleness)")


def is_classmethod(fn):
    return any(isinstance(d, ast.Name) and d.id in ("classmethod", "staticmethod") for d in fn.decorator_list)


def memo_inventory(chk, cr, methods):
    memos = {k: (v[0], v[1]) for k, v in MEMO.instance_memos(cr, "Crystal").items()}
    chk.need(len(memos) >= 4, f"expected >= 4 memo attributes in class Crystal, found {sorted(memos)}")
    return memos


def invalidations(fx, cr, ev, memos):
    return MEMO.removals(cr, "Crystal", ev, memos)


def _benign_guard(c: P) -> bool:
    return MEMO.benign_guard(c)


def crystal_memo_rule(chk, rid):
    """R14.1/R14.2 packaged for the properties that inherit the memo discipline of class Crystal (C01, C03, C04, C10, C13)."""
    cr = chk.repo.module(CR)
    fx = Effects(chk.repo, ATTR_TYPES)
    methods = [m for m in cr.methods("Crystal")]
    memos = memo_inventory(chk, cr, methods)
    mutators = {}
    for fn in methods:
        if is_classmethod(fn) or fn.name == "__init__":
            continue
        ws = [w for w in fx.method_writes(CR, "Crystal", fn.name) if w.attr in STATE]
        if ws:
            mutators[fn.name] = ws
    chk.need(len(mutators) >= 2, f"expected >= 2 state-changing methods of Crystal, found {sorted(mutators)}")
    MEMO.check_mutators_invalidate(chk, rid, CR, "Crystal", memos, mutators, fx)
    im = MEMO.instance_memos(cr, "Crystal")
    for name, info in sorted(im.items()):
        MEMO.check_memo_key(chk, rid, CR, "Crystal", name, info)
    MEMO.check_partial_removals(chk, rid, CR, "Crystal", im)


def r14_2(chk, cr, fx, memos, mutators):
    chk.need(len(mutators) >= 2, f"expected >= 2 state-changing methods of Crystal, found {sorted(mutators)}")
    for m, ws in sorted(mutators.items()):
        fn = cr.func(f"Crystal.{m}")
        ev = Ev(fn, cr.ctx, attr_hook=property_hook(cr, "Crystal")).run()
        chk.saw(CR, f"Crystal.{m}")
        # index of the last state write
        last = -1
        last_guards = ()
        nodes = {id(w.node) for w in ws}
        for idx, e in enumerate(ev.events):
            if id(e.node) in nodes or any(getattr(e.node, "lineno", -1) == getattr(w.node, "lineno", -2) for w in ws):
                last = idx
                last_guards = e.guards
        inv = invalidations(fx, cr, ev, memos)
        covered = set()
        lg = {(c.key(), p) for c, p in last_guards}
        for idx, names, g in inv:
            extra = [(c, p) for c, p in g if (c.key(), p) not in lg and not _benign_guard(c)]
            if idx > last and not extra:
                covered |= names
        # no normal exit between the last write and the invalidation
        early = [e for e in ev.events[last + 1:] if e.kind == "return" and
                 (not inv or ev.events.index(e) < max(i for i, _, _ in inv))]
        missing = sorted(set(memos) - covered)
        chk.ob("R14.2", CR, f"Crystal.{m}", f"after changing {sorted({w.attr for w in ws})} every memo is dropped on the way to every normal exit",
               not missing and not early, node=fn, fingerprint="invalidate",
               expected=f"removal of {sorted(memos)} after the last state store",
               found=f"not removed: {missing}" + (f"; return before invalidation at line {early[0].lineno}" if early else "") +
                     f" (writes: {[w.how for w in ws][:3]})")
        # the state objects keep the arrays they were given (np.asarray, no copy): a state change gives the state a NEW array or object; writing
        # elements into the existing one also changes every other holder of that array (another crystal built from the same coordinates, the
        # caller's array) -- whose memos nobody drops
        inplace = [w for w in ws if not (w.how.startswith("rebinds ") or (w.how.startswith("stores into ") and "[" not in w.how))]
        chk.ob("R14.2", CR, f"Crystal.{m}", f"the state change of {sorted({w.attr for w in ws})} replaces arrays / objects; it writes no elements into "
               "an existing array that other objects may share", not inplace, node=inplace[0].node if inplace else fn, fingerprint="replace-not-write",
               expected="self.<state>.<array> = <new array>", found=[w.how[:120] for w in inplace])


def external_consumers(chk, cr, methods):
    """Module-level functions of chmpy that Crystal's methods hand ``self`` to (exporters, structure factors, ...)."""
    out = {}
    for fn in methods:
        ev = Ev(fn, cr.ctx).run()
        for e in ev.events:
            if e.kind != "call":
                continue
            a = e.value.as_atom()
            if not a or a[0] != "call" or not any(x.key() == "self" for x in a[2]):
                continue
            c = a[1].as_atom()
            if not c or c[0] != "name":
                continue
            full = c[1] if c[1].startswith("chmpy.") else cr.ctx.alias.get(c[1], "")
            # function-level imports
            if not full:
                for imp in ev.events:
                    if imp.kind == "import" and imp.extra.get("names", {}).get(c[1]):
                        full = imp.extra["names"][c[1]]
            hit = chk.repo.resolve_symbol(full) if full.startswith("chmpy.") else None
            if hit and hit[1] in hit[0].funcs:
                out[(hit[0].rel, hit[1])] = (fn.name, [i for i, x in enumerate(a[2]) if x.key() == "self"][0])
    return out


def r14_3_external(chk, cr, methods):
    from ..effects import param_mutations
    cons = external_consumers(chk, cr, methods)
    for (rel, q), (caller, argi) in sorted(cons.items()):
        m = chk.repo.module(rel)
        chk.saw(rel, q)
        pn = [a.arg for a in m.funcs[q].args.args]
        mut = param_mutations(chk.repo, m, q, extra=frozenset(MEMO_GETTERS | {"slab"}))
        bad = mut.get(pn[argi]) if argi < len(pn) else None
        chk.ob("R14.3", rel, q, f"the function Crystal.{caller} hands the crystal to modifies neither the crystal nor the cached data its queries return",
               not bad, node=m.funcs[q], fingerprint=f"external:{q}", found=(bad or [])[:3])
    return len(cons)


def r14_3(chk, cr, fx, methods, writes, mutators, memos):
    r14_3_external(chk, cr, methods)
    mol = chk.repo.module("core/molecule.py")
    mfx = Effects(chk.repo)
    inplace_mol = set()
    for fn in mol.methods("Molecule"):
        if is_classmethod(fn) or fn.name == "__init__":
            continue
        ws = mfx.method_writes("core/molecule.py", "Molecule", fn.name)
        if any(w.attr in MOL_PAYLOAD for w in ws):
            inplace_mol.add(fn.name)
    chk.analysed["notes"].append(f"Molecule methods that modify positions/elements/labels in place: {sorted(inplace_mol)}")
    for fn in methods:
        if is_classmethod(fn) or fn.name == "__init__" or fn.name in mutators:
            continue
        ws = [w for w in writes.get(fn.name, []) if w.attr in STATE]
        chk.ob("R14.3", CR, f"Crystal.{fn.name}", "the method never writes the cell, space group or asymmetric unit (directly, through "
               "an alias, or through a callee)", not ws, node=fn, fingerprint="pure", found=[repr(w) for w in ws][:3])
        # payload of memoised objects
        ev = Ev(fn, cr.ctx).run()
        bad = []
        for e in ev.events:
            if e.kind in ("store", "aug"):
                t = e.target.as_atom()
                base = t[1] if t and t[0] in ("attr", "sub") else None
                if base is not None and from_memo(base, memos) and not allowed_payload_store(e.target):
                    bad.append(f"line {e.lineno}: stores into {str(e.target)[:80]}")
            elif e.kind == "assign" and e.extra.get("aug") and e.extra.get("old") is not None and from_memo(e.extra["old"], memos) \
                    and e.extra["old"].as_atom() and e.extra["old"].as_atom()[0] in ("sub", "attr"):
                bad.append(f"line {e.lineno}: in-place {e.extra['aug']} on {str(e.extra['old'])[:80]}")
            elif e.kind == "call" and e.target is not None:
                c = e.target.as_atom()
                if c and c[0] == "attr" and from_memo(c[1], memos):
                    if (c[2] in MUTATORS and not is_local_container(c[1])) or (c[2] in inplace_mol and is_molecule_elem(c[1], memos)):
                        bad.append(f"line {e.lineno}: calls in-place {c[2]}() on {str(c[1])[:60]}")
        chk.ob("R14.3", CR, f"Crystal.{fn.name}", "memoised objects are not modified in place after they were stored", not bad,
               node=fn, fingerprint="payload", found=bad[:3])


def from_memo(term: P, memos) -> bool:
    """term is (an element / field of) a value obtained from a memoising getter or memo attribute."""
    k = term.key()
    a = term.as_atom()
    if a and a[0] == "ite":
        # one of two containers (`d = memo if fast_path else {fresh}`): a store into it is a store into the memo on that branch
        return any(from_memo(x, memos) or _direct_memo(x, memos) for x in a[2:4])
    while a and a[0] in ("attr", "sub", "obj"):
        nxt = a[1] if a[0] != "obj" else a[3]
        if a[0] == "obj":
            # a local that is mutated in place: fresh unless it was bound directly to the memoised object
            return _direct_memo(nxt, memos)
        a = nxt.as_atom()
        term = nxt
        if a and a[0] == "ite":
            return from_memo(nxt, memos)
    if a and a[0] == "call":
        cn = call_name(a)
        if cn and cn.startswith(".") and cn[1:] in MEMO_GETTERS and a[1].as_atom()[1].key() == "self":
            return True
        if cn == "getattr" and a[2] and a[2][0].key() == "self" and string_value(a[2][1]) in memos:
            return True
        if cn in ("sorted", "list", "reversed", "enumerate") and a[2]:
            return from_memo(a[2][0], memos)
    if a and a[0] == "tuple":
        return False
    return False


def _direct_memo(term: P, memos) -> bool:
    a = term.as_atom()
    if a and a[0] == "call":
        cn = call_name(a)
        if cn and cn.startswith(".") and cn[1:] in MEMO_GETTERS and a[1].as_atom()[1].key() == "self":
            return True
        if cn == "getattr" and a[2] and a[2][0].key() == "self" and string_value(a[2][1]) in memos:
            return True
    if a and a[0] == "attr" and a[1].key() == "self" and a[2] in memos:
        return True
    return False


def allowed_payload_store(target: P) -> bool:
    """Metadata that symmetry_unique_molecules attaches to memoised molecules is not payload (DESIGN R14.3)."""
    k = target.key()
    return ".properties['asym_mol_idx']" in k or "._partial_charges" in k or "._bond_graph" in k or ".bonds" in k


def is_local_container(term: P) -> bool:
    a = term.as_atom()
    return bool(a and a[0] == "obj" and not _direct_memo(a[3], {}))


def is_molecule_elem(term: P, memos) -> bool:
    k = term.key()
    return "molecules()" in k or "_molecules')" in k


def r14_4(chk, cr, methods, memos):
    getters = {g for g, _ in memos.values()}
    allowed = set(STATE) | set(memos) | {"properties"}
    cls_names = {f.name for f in methods}
    for g in sorted(getters):
        fn = cr.func(f"Crystal.{g}")
        ev = Ev(fn, cr.ctx).run()
        reads = set()
        for e in ev.events:
            for val in (e.value, e.target):
                if val is None:
                    continue
                for a in find_atoms(val, lambda a: a[0] == "attr" and a[1].key() == "self"):
                    reads.add(a[2])
                for a in find_atoms(val, lambda a: a[0] == "call" and call_name(a) == "getattr" and a[2] and a[2][0].key() == "self"):
                    nm = string_value(a[2][1]) if len(a[2]) > 1 else None
                    if nm:
                        reads.add(nm)
        other = sorted(r for r in reads if r not in allowed and r not in cls_names)
        chk.ob("R14.4", CR, f"Crystal.{g}", "the memoised value reads no mutable attribute besides the three state fields",
               not other, node=fn, fingerprint="reads", found=other)


def getter_call_arguments(chk, cr, memos):
    """The memo of a getter answers every later call whatever its arguments (that staleness is excluded by the property: 'each query always
    issued with the same arguments').  The library's own call sites must then issue the query with the arguments everybody else uses -- the
    defaults: a constant argument equals the getter's default, a forwarded one is the caller's parameter of the same name and default."""
    getters = {}
    for g, _ in memos.values():
        fn = cr.funcs.get(f"Crystal.{g}")
        if fn is None:
            continue
        names = [a.arg for a in fn.args.args][1:]
        dfl = {}
        for a, d in zip(fn.args.args[len(fn.args.args) - len(fn.args.defaults):], fn.args.defaults):
            dfl[a.arg] = d
        getters[g] = (names, dfl)
    n = 0
    for rel in chk.repo.all_py():
        try:
            mod = chk.repo.module(rel)
        except Exception:      # noqa: BLE001
            continue
        for qual, fn in mod.funcs.items():
            pdefaults = {}
            pa = fn.args.args
            for a, d in zip(pa[len(pa) - len(fn.args.defaults):], fn.args.defaults):
                pdefaults[a.arg] = d
            for node in ast.walk(fn):
                if not (isinstance(node, ast.Call) and isinstance(node.func, ast.Attribute) and node.func.attr in getters):
                    continue
                names, dfl = getters[node.func.attr]
                given = [(names[i], v) for i, v in enumerate(node.args) if i < len(names) and not isinstance(v, ast.Starred)]
                given += [(k.arg, k.value) for k in node.keywords if k.arg is not None]
                for name, v in given:
                    if name not in dfl:
                        continue
                    want = ast.dump(dfl[name])
                    ok = None
                    if isinstance(v, ast.Constant) or (isinstance(v, ast.UnaryOp) and isinstance(v.operand, ast.Constant)):
                        try:
                            ok = ast.literal_eval(v) == ast.literal_eval(dfl[name])
                        except Exception:      # noqa: BLE001
                            ok = ast.dump(v) == want
                    elif isinstance(v, ast.Name) and v.id in pdefaults:
                        try:
                            ok = ast.literal_eval(pdefaults[v.id]) == ast.literal_eval(dfl[name])
                        except Exception:      # noqa: BLE001
                            ok = ast.dump(pdefaults[v.id]) == want
                    if ok is None:
                        continue
                    n += 1
                    chk.ob("R14.4", rel, qual, f"the memoised query {node.func.attr}() is issued with the arguments every other caller uses: "
                           f"{name} has the getter's default", ok, node=node, fingerprint=f"getter-arg:{node.func.attr}:{name}",
                           expected=f"{name}={ast.unparse(dfl[name])}", found=f"{name}={ast.unparse(v)}" +
                           (f" (default {ast.unparse(pdefaults[v.id])})" if isinstance(v, ast.Name) and v.id in pdefaults else ""))
    return n


def r14_5(chk, cr, mutators, fx):
    q = "Crystal.to_cif_data"
    ev = Ev(cr.func(q), cr.ctx).run()
    chk.saw(CR, q)
    fresh = {}
    for e in ev.events:
        if e.kind == "assign" and e.name == "cif_data" and e.value is not None:
            items = dict_items(e.value)
            if items:
                fresh = {k: v for k, _, v in items}
    if not fresh:
        for e in ev.events:
            if e.value is None:
                continue
            for a in find_atoms(e.value, lambda a: a[0] == "dict" and len(a[1]) >= 8):
                fresh = {string_value(k): v for k, v in a[1]}
    chk.need(fresh, f"{q}: fresh CIF dictionary literal not found")
    # what is exported is read back through from_cif_data: of alternative item names the refreshed one must be tried first
    from .c10 import alternatives_order
    rq = "Crystal.from_cif_data"
    alternatives_order(chk, "R14.5", cr, cr.ev(rq), rq, fresh)
    state_keys = sorted(k for k, v in fresh.items() if any(s in v.key() for s in
                        ("self.unit_cell", "self.asymmetric_unit", "self.space_group", "self.symmetry_operations")))
    chk.need(len(state_keys) >= 8, f"{q}: expected >= 8 state-derived CIF keys, found {state_keys}")
    # reuse branch: stores into the cached dictionary / update(fresh)
    reuse_keys = set()
    cached_used = False
    for e in ev.events:
        if e.kind == "test" and "'cif_data'" in e.value.key() and "self.properties" in e.value.key():
            cached_used = True
        if e.kind == "store":
            t = e.target.as_atom()
            if t and t[0] == "sub" and "cif_data" in t[1].key():
                k = string_value(t[2][0])
                if k:
                    reuse_keys.add(k)
        if e.kind == "call" and call_name(e.value.as_atom() or ()) == ".update" and "cif_data" in e.target.key():
            arg = e.extra["args"][0] if e.extra["args"] else None
            items = dict_items(arg) if arg is not None else None
            if items:
                reuse_keys |= {k for k, _, _ in items}
    # {**stored, **current}: a new dictionary in which the later source wins - every key of the fresh items after the stored ones
    for e in ev.events:
        if e.kind != "assign" or e.value is None:
            continue
        for a in find_atoms(e.value, lambda a: a[0] == "dict" and any(k.key() == "'**'" or k.key() == "**" for k, _ in a[1])):
            srcs = [v for k, v in a[1]]
            stored_at = [i for i, v in enumerate(srcs) if "cif_data" in v.key() and "self.properties" in v.key()]
            if not stored_at:
                continue
            cached_used = True
            for v in srcs[max(stored_at) + 1:]:
                items = dict_items(v)
                if items:
                    reuse_keys |= {k for k, _, _ in items}
    if not cached_used:
        for k in state_keys:
            chk.ob("R14.5", CR, q, f"key '{k}' is always computed from the current state (no cached dictionary is reused)", True,
                   fingerprint=f"cif:{k}")
        return
    # alternatively mutators drop the cached dictionary
    dropped = True
    for m in mutators:
        sub = Ev(cr.func(f"Crystal.{m}"), cr.ctx).run()
        d = any(e.kind == "call" and ".properties.pop" in e.target.key() and string_value(e.extra["args"][0]) == "cif_data" for e in sub.events)
        d = d or any(e.kind == "delete" and "properties['cif_data']" in e.target.key() for e in sub.events)
        if not d:
            for e in sub.events:
                if e.kind == "call" and e.target is not None and e.target.as_atom() and e.target.as_atom()[0] == "attr" \
                        and e.target.as_atom()[1].key() == "self":
                    h = cr.funcs.get(f"Crystal.{e.target.as_atom()[2]}")
                    if h is not None:
                        hev = Ev(h, cr.ctx).run()
                        if any(x.kind == "call" and ".properties.pop" in x.target.key() and string_value(x.extra["args"][0]) == "cif_data"
                               for x in hev.events):
                            d = True
        dropped = dropped and d
    for k in state_keys:
        chk.ob("R14.5", CR, q, f"state-derived key '{k}' is refreshed when the cached CIF dictionary is reused "
               "(or every mutator drops the cached dictionary)", k in reuse_keys or dropped, fingerprint=f"cif:{k}",
               expected="refreshed in the reuse branch", found=f"refreshed keys: {sorted(reuse_keys)}")
    # items of the source CIF that are functions of the structure but are not among the refreshed keys (_cell_volume,
    # _cell_formula_units_Z, the Hermann-Mauguin symbol, ...) go stale after a state change unless they are filtered out
    src = ast.unparse(cr.func(q))
    filtered = any(w in src for w in ("startswith(", "STRUCTURE_", "not in current", "pop(")) and "cif_data" in src
    chk.ob("R14.5", CR, q, "a reused CIF dictionary keeps no structure-derived item that is not refreshed (cell_*, symmetry_*, space_group_* of the "
           "source file), or every mutator drops the cached dictionary", dropped or filtered, fingerprint="cif-stale-derived",
           expected="items with a structure prefix are dropped or recomputed before the update", found="cif_data.update(current) on the complete source dictionary")


# ------------------------------------------------------------------------------------------------ R14.6
def r14_6(chk, cr, methods):
    from ..symex import obj_init
    n = 0
    for fn in methods:
        if not any(isinstance(x, ast.Attribute) and x.attr in ("empty", "empty_like") for x in ast.walk(fn)):
            continue
        ev = Ev(fn, cr.ctx).run()
        for r in ev.returns:
            if r.value is None:
                continue
            for a in find_atoms(r.value, lambda a: a[0] == "obj"):
                init = a[3].as_atom()
                if not (init and init[0] == "call" and call_name(init) in ("numpy.empty", "numpy.empty_like")):
                    continue
                n += 1
                me = P.atom(a).key()
                full = False
                scattered = []
                for e in ev.events:
                    if e.kind not in ("store", "aug"):
                        continue
                    t = e.target.as_atom()
                    if not (t and t[0] == "sub" and t[1].key() == me):
                        continue
                    idx = t[2][0]
                    ia = idx.as_atom()
                    if ia and ia[0] == "slice" and ia[1].key() == "None" and ia[2].key() == "None":
                        full = True
                    elif ia and ia[0] == "lv" and any(l.kind in ("range", "enumerate") and l.index is not None and l.index.key() == idx.key() for l in e.loops):
                        full = True          # a counting loop over the whole array (bounds are R-specific, not decided here)
                    else:
                        scattered.append(f"line {e.lineno}: {str(e.target)[:60]}")
                chk.saw(CR, f"Crystal.{fn.name}")
                chk.ob("R14.6", CR, f"Crystal.{fn.name}", "the returned np.empty array is written everywhere (a full-slice store or a counting loop), "
                       "not only at positions taken from data", full or not scattered, node=fn, fingerprint=f"empty:{a[1]}",
                       expected="numpy.zeros(...) or a store that covers every element", found=scattered[:2])
    chk.ob("R14.6", CR, "Crystal", f"inventory: {n} returned np.empty buffers in the query methods", True, fingerprint="inventory", nontrivial=False)
