"""C15 — CIF text written by the library parses back (fmt/cif.py)."""
from __future__ import annotations

import ast
import re

from ..core import AnalysisError
from ..poly import P
from ..symex import Ev, find_atoms, call_name, seq_items, obj_init
from ..layout import pieces_of, Spec
from .generic import string_value, dict_items, list_appends

MOD = "fmt/cif.py"


def method_inliner(mod, cls):
    """call_hook inlining ``self.m(args)`` when m is a single-return method of ``cls``."""
    def hook(ev, callee, args, kwargs, node):
        ca = callee.as_atom()
        if not ca or ca[0] != "attr" or ca[1].key() != "self" or kwargs:
            return None
        fn = mod.funcs.get(f"{cls}.{ca[2]}")
        if fn is None:
            return None
        body = [s for s in fn.body if not (isinstance(s, ast.Expr) and isinstance(s.value, ast.Constant))]
        if len(body) != 1 or not isinstance(body[0], ast.Return):
            return None
        params = [a.arg for a in fn.args.args][1:]
        if len(params) != len(args):
            return None
        sub = Ev([body[0]], mod.ctx, params={"self": P.name("self"), **dict(zip(params, args))})
        sub.run()
        return sub.returns[0].value
    return hook


def prefixes_in(cond: P):
    """Structural prefixes tested by a condition: ('prefix', s) for x.startswith(s); ('dispatch',) for 'tok in self.line_dispatch'."""
    out = []
    for a in find_atoms(cond, lambda a: a[0] == "call" and call_name(a) == ".startswith"):
        s = string_value(a[2][0]) if a[2] else None
        if s is not None:
            out.append(("prefix", s))
        else:
            it = seq_items(a[2][0]) if a[2] else None
            for x in it or ():
                if string_value(x) is not None:
                    out.append(("prefix", string_value(x)))
    for a in find_atoms(cond, lambda a: a[0] == "in" and a[2].key() == "self.line_dispatch"):
        # the first blank-separated token of the line, as the dispatcher takes it
        if a[1].key().endswith(".split()[0]"):
            out.append(("dispatch",))
    return out


def false_when(value: P):
    """Conditions each of which makes the returned boolean ``value`` False: ``not X`` is False under X,
    ``a not in b`` under ``a in b``, a conjunction under any of its members' conditions."""
    a = value.as_atom()
    if not a:
        return []
    if a[0] == "not":
        return [a[1]]
    if a[0] == "notin":
        return [P.atom(("in", a[1], a[2]))]
    if a[0] == "and":
        out = []
        for x in a[1]:
            out.extend(false_when(x))
        return out
    return []


def regex_literal(mod, name):
    node = mod.toplevel_assign(name)
    if isinstance(node, ast.Call) and node.args and isinstance(node.args[0], ast.Constant):
        return node.args[0].value, node
    if isinstance(node, ast.Constant) and isinstance(node.value, str):
        return node.value, node
    raise AnalysisError(f"{name} is no longer a literal regular expression")


def run(chk):
    repo = chk.repo
    mod = repo.module(MOD)
    chk.explanation = ("fmt/cif.py: the loop terminator's structural prefixes against the top-level dispatcher's; dominance "
                       "of the full-match test over the numeric branch; one quoting predicate for both writers and its "
                       "delimiter against the tokenizer regex (parsed with re._parser, never executed) and parse_value; "
                       "pairing/zip structure of loop emission; writer number formats against the reader's number regex.")
    chk.rule("R15.1", "the loop terminator rejects every line the top-level dispatcher treats as structure", 4)
    chk.rule("R15.2", "numbers are recognised only on a full match; the uncertainty is the last group, stripped of parentheses", 4)
    chk.rule("R15.3", "one quoting predicate for scalar and loop writers; the quote delimiter is tokenised before \\S+ and stripped by parse_value", 6)
    chk.rule("R15.4", "loop emission: names and columns appended pairwise, rows are zip of equal-length columns, one row per line, file ends with a non-data line", 6)
    chk.rule("R15.5", "the numeric formats the writer emits are in the reader's number language", 6)
    chk.rule("R15.6", "the text reaches the tokenizer as written: from_string splits the contents into lines and changes nothing inside a line "
                      "(a '#' inside a quoted string is data)", 1)
    chk.rule("R15.7", "the reader's line cursor and item structure: every handler and every scanning loop advances the cursor; an item's name is the "
                      "first token without its underscore, its value the rest of the line or the next line; loop names, rows and tokens are paired in order", 12)
    for r, f in (("R15.1", r15_1), ("R15.2", r15_2), ("R15.3", r15_3), ("R15.4", r15_4), ("R15.5", r15_5), ("R15.6", r15_6), ("R15.7", r15_7)):
        if chk.want(r):
            f(chk, mod)
    chk.assume("strings are free of nested quotes, tabs and runs of blanks; semicolon text blocks are not decided")
    chk.assume("'same value types' is read as number stays number, string stays string (parse_value returns int for integral floats)")


def r15_1(chk, mod):
    # dispatcher
    init = mod.ev("Cif.__init__")
    keys = None
    for e in init.events:
        if e.kind == "store" and e.target.key() == "self.line_dispatch":
            items = dict_items(e.value)
            if items is not None:
                keys = [k for k, _, _ in items]
    chk.need(keys is not None, "Cif.__init__: line_dispatch literal not found")
    pv = mod.ev("Cif.parse")
    chk.saw(MOD, "Cif.parse")
    structural = []
    for e in pv.events:
        if e.kind == "test":
            for p in prefixes_in(e.value):
                if p[0] == "dispatch":
                    structural.extend(("token", k) for k in keys)
                else:
                    structural.append(p)
    structural = sorted(set(structural))
    chk.need(len(structural) >= 3, f"Cif.parse: expected >= 3 structural line kinds, found {structural}")
    # terminator
    hook = method_inliner(mod, "Cif")
    tv = mod.ev("Cif.is_data_line", call_hook=hook)
    chk.saw(MOD, "Cif.is_data_line")
    rejects = []
    for e in tv.returns:
        if e.value.key() != "False":
            # a boolean returned directly: the line is rejected whenever the expression is False
            for c in false_when(e.value):
                rejects.extend(prefixes_in(c))
            continue
        for c, pol in e.guards:
            if pol:
                rejects.extend(prefixes_in(c))
    rej_prefixes = [p[1] for p in rejects if p[0] == "prefix"]
    has_dispatch = any(p[0] == "dispatch" for p in rejects)
    for kind, s in structural:
        covered = any(s.startswith(rp) for rp in rej_prefixes) or (kind == "token" and has_dispatch)
        chk.ob("R15.1", MOD, "Cif.is_data_line", f"a line starting with {s!r} ends a loop's data rows", covered,
               fingerprint=f"terminator:{s}", expected=f"is_data_line returns False for lines starting with {s!r}",
               found=f"rejected prefixes {sorted(set(rej_prefixes))}" + (" + line_dispatch tokens" if has_dispatch else ""))
    # the loop reader uses the terminator and bounds the index
    lv = mod.ev("Cif.parse_loop_block", call_hook=None)
    chk.saw(MOD, "Cif.parse_loop_block")
    uses = any(l.kind == "while" and "is_data_line" in l.iter.key() for l in lv.all_loops)
    chk.ob("R15.1", MOD, "Cif.parse_loop_block", "data rows are collected while is_data_line holds", uses)


def r15_7(chk, mod):
    """The reader walks the list of lines with one cursor, self.line_index.  Structural obligations of that walk (typestate of the
    cursor) and of what is taken from each line."""
    CUR = "self.line_index"
    LINE = "self.content_lines[self.line_index]"

    def advances(ev):
        return [e for e in ev.events if e.kind == "aug" and e.target.key() == CUR]

    def unit(e):
        return e.op == "Add" and e.value.const_value() == 1          # one line at a time: a larger step skips lines that were never looked at

    def raise_guards(ev):
        return {(e.guards[-1][0].key(), e.guards[-1][1]) for e in ev.events if e.kind == "raise" and e.guards}

    # (a) every handler the dispatcher can call moves the cursor on, whatever the line was (or the main loop never ends / parses a line twice)
    for q in ("Cif.parse_data_name", "Cif.parse_loop_block", "Cif.parse_comment_line", "Cif.parse_data_block_name"):
        if q not in mod.funcs:
            continue
        ev = mod.ev(q)
        chk.saw(MOD, q)
        rg = raise_guards(ev)
        always = [e for e in advances(ev) if not e.loops and unit(e) and all((c.key(), not pol) in rg for c, pol in e.guards)]
        chk.ob("R15.7", MOD, q, "the handler advances the line cursor on every path that returns (by at least one line, outside any condition)",
               bool(always), fingerprint=f"advance:{q}", found=[f"{'+' if e.op == 'Add' else e.op}{e.value} under {[str(c)[:40] for c, _ in e.guards]}" for e in advances(ev)][:4])
        # (b) every scanning loop advances in every pass, before anything can leave the pass
        for l in [l for l in ev.all_loops if l.kind == "while"]:
            body = [e for e in ev.events if e.loops and e.loops[-1].k == l.k]
            if not body or CUR not in l.iter.key() and "content_lines" not in l.iter.key() and "line" not in l.iter.key():
                continue
            base = min((len(e.guards) for e in body), default=0)
            steps = [e for e in body if e.kind == "aug" and e.target.key() == CUR and unit(e) and len(e.guards) == base]
            chk.ob("R15.7", MOD, q, "a loop that scans lines advances the cursor in every pass (unconditionally inside the loop)", bool(steps),
                   node=l.node, fingerprint=f"loop-advance:{q}:{str(l.iter)[:40]}", found=f"while {str(l.iter)[:80]}")
    # (c) one item on a line:  _name value...   /   _name  followed by the value on the next line
    ev = mod.ev("Cif.parse_data_name")
    st = [e for e in ev.events if e.kind == "store" and "current_data_block" in e.target.key()]
    chk.need(len(st) == 1, "Cif.parse_data_name: store into the current data block not found")
    tok = f"{LINE}.strip()[(slice 1 None None)].split()"
    ta = st[0].target.as_atom()
    chk.ob("R15.7", MOD, "Cif.parse_data_name", "the item is stored under the first token of the line without its leading underscore",
           bool(ta and ta[0] == "sub" and len(ta[2]) == 1 and ta[2][0].key() == f"{tok}[0]"), node=st[0].node, fingerprint="item-name",
           expected=f"{tok}[0]", found=str(ta[2][0])[:120] if ta and ta[0] == "sub" else None)
    va = st[0].value.as_atom()
    arg = va[2][0].as_atom() if va and call_name(va) == "parse_value" and va[2] else None
    okv = bool(arg and arg[0] == "ite" and arg[1].key() == f"(eq 1 len({tok}))" and arg[3].key() == f"' '.join({tok}[(slice 1 None None)])")
    chk.ob("R15.7", MOD, "Cif.parse_data_name", "the value is the rest of the line (tokens 1.. joined by blanks), or - when the name stands alone on its "
           "line - what the following line(s) hold", okv, node=st[0].node, fingerprint="item-value",
           expected=f"parse_value(' '.join(tokens[1:]) unless len(tokens) == 1)", found=str(st[0].value)[:160])
    nxt = [e for e in ev.events if e.kind == "assign" and e.value is not None and e.value.as_atom() and e.value.as_atom()[0] == "sub"
           and e.value.as_atom()[1].key() == "self.content_lines" and any(pol and c.key() == f"(eq 1 len({tok}))" for c, pol in e.guards)]
    chk.ob("R15.7", MOD, "Cif.parse_data_name", "the following line is the one right after the cursor", bool(nxt) and
           all(e.value.key() == "self.content_lines[1 + self.line_index]" for e in nxt), fingerprint="next-line", found=[str(e.value) for e in nxt][:2])
    alone = [e for e in advances(ev) if not e.loops and any(c.key() == f"(eq 1 len({tok}))" and pol for c, pol in e.guards)]
    pairs = {(e.guards[-1][0].key(), e.guards[-1][1]) for e in alone if unit(e)}
    chk.ob("R15.7", MOD, "Cif.parse_data_name", "a value taken from the following line consumes that line: the cursor moves once more on either way of reading it",
           len(pairs) == 2 and len({k for k, _ in pairs}) == 1 and {p for _, p in pairs} == {True, False}, fingerprint="consume-next",
           found=sorted(pairs))
    # (d) a loop: names, rows, tokens
    lv = mod.ev("Cif.parse_loop_block")
    apps = [e for e in lv.events if e.kind == "call" and e.target is not None and e.target.key().endswith(".append") and e.extra.get("args")]
    names = [e for e in apps if e.loops and e.loops[-1].kind == "while" and "startswith('_')" in e.loops[-1].iter.key()]
    chk.ob("R15.7", MOD, "Cif.parse_loop_block", "a loop's names are its '_' lines without the underscore, one per line, while such lines follow", len(names) == 1
           and names[0].extra["args"][0].key().endswith(".strip()[(slice 1 None None)]") and "content_lines[self.line_index]" in names[0].extra["args"][0].key()
           and names[0].extra["args"][0].key().split(".strip()")[0] in names[0].loops[-1].iter.key(), fingerprint="loop-names",
           found=[str(e.extra["args"][0])[:100] for e in names])
    rows = [e for e in apps if e.loops and e.loops[-1].kind == "while" and "is_data_line" in e.loops[-1].iter.key()]
    chk.ob("R15.7", MOD, "Cif.parse_loop_block", "a loop's rows are the (stripped) lines for which is_data_line holds, the line tested being the line kept",
           len(rows) == 1 and rows[0].extra["args"][0].key().endswith(".strip()") and rows[0].extra["args"][0].key()[:-len(".strip()")] in rows[0].loops[-1].iter.key(),
           fingerprint="loop-rows", found=[str(e.extra["args"][0])[:100] for e in rows])
    merged = {e.extra["args"][0].key() for e in lv.events if e.kind == "call" and e.target is not None and e.target.key().endswith(".update")
              and "current_data_block" in e.target.key() and e.extra.get("args") and e.extra["args"][0].as_atom()
              and e.extra["args"][0].as_atom()[0] in ("obj", "comp")}
    merged_terms = [e.extra["args"][0] for e in lv.events if e.kind == "call" and e.target is not None and e.target.key().endswith(".update")
                    and "current_data_block" in e.target.key() and e.extra.get("args") and e.extra["args"][0].key() in merged]

    def in_block(t):
        """does the target term live in the current data block (directly, through a local bound to it, or in a dictionary of columns that is
        merged into it with update(): the lists are shared)?"""
        k_ = t.key()
        if "current_data_block" in k_:
            return True
        if any(P.atom(a).key() in merged for a in find_atoms(t, lambda a: a[0] == "obj")) or any(mk in k_ for mk in merged):
            return True
        return any("current_data_block" in obj_init(P.atom(a)).key() for a in find_atoms(t, lambda a: a[0] == "obj"))
    cells = [e for e in apps if in_block(e.target) and e.loops and e.loops[-1].kind == "zip"]
    okc = False
    if len(cells) == 1 and names and rows:
        z = cells[0].loops[-1]
        za = z.iter.as_atom() if z.iter is not None else None
        args = za[2] if za and za[0] == "call" else ()
        kobj = names[0].target.as_atom()[1].key()
        robj = rows[0].target.as_atom()[1].key()
        tgt = cells[0].target.as_atom()[1].as_atom()
        val = cells[0].extra["args"][0].as_atom()
        toks = args[1].key() if len(args) == 2 else ""
        def whole_row(t):
            """the row as it was kept, at most stripped of surrounding blanks: the quote-aware tokeniser must see the whole line (a cut made on
            the raw text -- split('#'), a slice, replace -- is blind to quotes and tears quoted values apart)"""
            a_ = t.as_atom() if t is not None else None
            while a_ and a_[0] == "call" and call_name(a_) in (".strip", ".rstrip", ".lstrip") and not a_[2]:
                a_ = a_[1].as_atom()[1].as_atom()
            return bool(a_ and a_[0] in ("sub", "lv", "lc") and (a_[0] != "sub" or (a_[1].key() == robj and len(a_[2]) == 1 and not str(a_[2][0]).startswith("(slice"))))

        def tokenised(t):
            a_ = t.as_atom() if t is not None else None
            return bool(a_ and a_[0] == "call" and call_name(a_) == "re.findall" and len(a_[2]) == 2 and a_[2][0].key() == "VALUES_REGEX" and whole_row(a_[2][1]))
        ta_ = args[1].as_atom() if len(args) == 2 else None
        from_rows = (len(args) == 2 and tokenised(args[1])) or \
            bool(ta_ and ta_[0] == "comp" and ta_[1] == "ListComp" and f"((iter {robj} ()))" in toks and tokenised(ta_[2]))   # rows tokenised beforehand, one list per row
        okc = bool(len(args) == 2 and args[0].key() == kobj and from_rows
                   and tgt and tgt[0] == "sub" and tgt[2][0].key() == f"{kobj}[{z.index}]" and val and call_name(val) == "parse_value"
                   and val[2][0].key() == f"{args[1]}[{z.index}]")
    chk.ob("R15.7", MOD, "Cif.parse_loop_block", "token j of every row goes, parsed once, to the column of name j (zip of the names with the row's tokens "
           "from VALUES_REGEX)", okc, fingerprint="loop-cells", found=[str(e.value)[:140] for e in cells][:1])
    inits = [e for e in lv.events if e.kind == "store" and "current_data_block" in e.target.key() and e.value.key() == "(tuple ())" and e.loops]
    okinit = len(inits) == 1 and bool(names) and inits[0].loops[-1].iter is not None and inits[0].loops[-1].iter.key() == names[0].target.as_atom()[1].key()
    if not inits and names:
        # block.update((k, []) for k in keys)
        for e in lv.events:
            if e.kind == "call" and e.target is not None and e.target.key().endswith(".update") and in_block(e.target) and e.extra.get("args"):
                ca_ = e.extra["args"][0].as_atom()
                if ca_ and ca_[0] == "comp" and len(ca_) == 4 and len(ca_[3]) == 1 and not ca_[3][0][2] and ca_[3][0][1].key() == names[0].target.as_atom()[1].key():
                    pr = seq_items(ca_[2])
                    okinit = bool(pr and len(pr) == 2 and pr[1].key() == "(tuple ())" and pr[0].key().startswith(names[0].target.as_atom()[1].key() + "["))
    if not okinit and names:
        # columns = {k: [] for k in keys}; block.update(columns)
        for mt in merged_terms:
            for e in [None]:
                if True:
                    da = obj_init(mt).as_atom()
                    if da and da[0] == "comp" and da[1] == "DictComp" and len(da) == 5 and len(da[4]) == 1 and not da[4][0][2] \
                            and da[4][0][1].key() == names[0].target.as_atom()[1].key() and da[3].key() == "(tuple ())" \
                            and da[2].key().startswith(names[0].target.as_atom()[1].key() + "["):
                        okinit = True
    chk.ob("R15.7", MOD, "Cif.parse_loop_block", "every name of the loop starts with an empty column (also when the loop has no rows)", okinit,
           fingerprint="loop-columns", found=[str(e.target)[:80] for e in inits])
    # (e) data_<name>
    bv = mod.ev("Cif.parse_data_block_name")
    bs = [e for e in bv.events if e.kind == "store" and e.target.key() == "self.current_data_block_name"]
    chk.ob("R15.7", MOD, "Cif.parse_data_block_name", "the block name is the line after its five characters 'data_'", len(bs) == 1 and
           bs[0].value.key() == f"{LINE}[(slice 5 None None)].strip()", fingerprint="block-name", found=[str(e.value) for e in bs])


def r15_2(chk, mod):
    q = "parse_value"
    ev = mod.ev(q)
    chk.saw(MOD, q)
    s = P.name(ev.param_names[0])
    num_returns = [e for e in ev.returns if "float(" in e.value.key() or "int(" in e.value.key()]
    chk.need(num_returns, f"{q}: numeric return not found")
    for e in num_returns:
        full = False
        for c, pol in e.guards:
            if not pol:
                continue
            # the equality is itself a condition that holds on this path (a conjunct), not one arm of an `or`
            for a in ([c.as_atom()] if c.as_atom() and c.as_atom()[0] == "eq" else []):
                ks = {a[1].key(), a[2].key()}
                if f"len({s})" in ks and any(".span()[1]" in k or ".end()" in k for k in ks):
                    full = True
            if "fullmatch" in c.key():
                full = True
        chk.ob("R15.2", MOD, q, "the numeric branch is taken only when the number regex matched the whole string", full,
               node=e.node, fingerprint="fullmatch", found=[f"{'' if p else 'not '}{c}" for c, p in e.guards])
    # number = groups[0], uncertainty = groups[-1]: the text handed to int() / float() is group 1, the text whose parentheses are stripped
    # is the last group (by -1, or by its number when that is the number of groups of the pattern)
    import re._parser as _sre
    ngroups = _sre.parse(regex_literal(mod, "NUM_ERR_REGEX")[0]).state.groups - 1

    def group_index(t):
        """k for  <match>.groups()[k]  (normalised: -1 for the last group), None for anything else"""
        a = t.as_atom()
        if not (a and a[0] == "sub" and len(a[2]) == 1 and a[2][0].const_value() is not None and a[1].key().endswith(".groups()")
                and ".match(" in a[1].key()):
            return None
        k = int(a[2][0].const_value())
        return -1 if k in (-1, ngroups - 1) else k
    num_idx, unc_idx = set(), set()
    for e in ev.events:
        if e.kind != "call" or e.value is None:
            continue
        a = e.value.as_atom()
        if a and call_name(a) in ("int", "float") and len(a[2]) == 1 and group_index(a[2][0]) is not None:
            num_idx.add(group_index(a[2][0]))
        if a and call_name(a) == ".strip" and a[2] and string_value(a[2][0]) == "()":
            unc_idx.add(group_index(a[1].as_atom()[1]))
    num = sorted(num_idx, key=str)
    unc = sorted(unc_idx, key=str)
    chk.ob("R15.2", MOD, q, "the number is group 1 and the uncertainty the last group of the match",
           num_idx == {0} and unc_idx == {-1},
           found=f"converted: groups {num} / parentheses stripped from: groups {unc} (pattern has {ngroups} groups)")
    strip_ok = any('.strip(\'()\')' in e.value.key() for e in ev.returns)
    chk.ob("R15.2", MOD, q, "the uncertainty is stripped of its parentheses before conversion", strip_ok)
    # regex structure: last group is an optional parenthesised run of digits
    import re._parser as sre
    import re._constants as C
    pat, node = regex_literal(mod, "NUM_ERR_REGEX")
    tree = list(sre.parse(pat))
    last = tree[-1]
    ok = False
    if last[0] is C.MAX_REPEAT and last[1][0] == 0 and last[1][1] == 1:
        inner = list(last[1][2])
        if len(inner) == 1 and inner[0][0] is C.SUBPATTERN:
            seq = list(inner[0][1][3])
            ok = (len(seq) == 3 and seq[0] == (C.LITERAL, ord("(")) and seq[2] == (C.LITERAL, ord(")"))
                  and seq[1][0] is C.MAX_REPEAT and seq[1][1][0] >= 1)
    chk.ob("R15.2", MOD, "NUM_ERR_REGEX", "the last group is an optional '(' digits ')' standard uncertainty", ok, node=node, found=pat)
    # value types: an int only for digit-only text, a float otherwise; the text is converted directly (no detour through float)
    coerces = [e for e in ev.events if e.kind == "call" and (call_name(e.value.as_atom() or ()) or "").endswith(".is_integer")]
    int_calls = [e for e in ev.events if e.kind == "call" and call_name(e.value.as_atom() or ()) == "int" and "groups()[0]" in e.value.key()]
    int_guarded = bool(int_calls) and all(any(pol and "fullmatch" in c.key() and "\\d" in c.key() and "." not in c.key().split("fullmatch(")[1].split(",")[0].replace("\\d", "")
                                               for c, pol in e.guards) for e in int_calls)
    if not int_guarded and int_calls:
        for r in ev.returns:
            for a in find_atoms(r.value, lambda a: a[0] == "ite"):
                if "fullmatch" in a[1].key() and "\\d" in a[1].key() and call_name(a[2].as_atom() or ()) == "int" and "groups()[0]" in a[2].key():
                    int_guarded = True
    # ... and the text tested for "digits only" is the text that is converted (the number without its uncertainty), not the whole item
    def tested_text(c):
        for a in find_atoms(c, lambda a: a[0] == "call" and (call_name(a) or "").endswith("fullmatch") and len(a[2]) == 2):
            return a[2][1].key()
        return None
    for e in int_calls:
        conv = e.extra["args"][0].key() if e.extra.get("args") else None
        for c, pol in e.guards:
            tt = tested_text(c) if pol and "fullmatch" in c.key() and "\\d" in c.key() else None
            if tt is not None and conv is not None and tt != conv:
                int_guarded = False
    via_float = any("float" in str(e.extra.get("args", [""])[0]) or "number" == str(e.extra.get("args", [""])[0]) for e in int_calls)
    chk.ob("R15.2", MOD, q, "value types are kept: the result is an int only when the text is digits only (a float such as '2.0' stays a float, "
           "integers are converted from the text, not through float)", not coerces and int_guarded and not via_float, fingerprint="number-type",
           expected="int(text) under a digits-only match, float(text) otherwise",
           found=("integral floats are turned into ints with .is_integer(); " if coerces else "") + str([str(e.value)[:60] for e in int_calls])[:160])
    # the number language is a subset of what float() accepts: '.' is the only decimal mark
    marks = set()

    def walk(items):
        for op, av in items:
            if op is C.IN:
                lits = {chr(v) for o2, v in av if o2 is C.LITERAL}
                if lits and lits <= set(".,"):
                    marks.update(lits)
            elif op is C.SUBPATTERN:
                walk(av[3])
            elif op in (C.MAX_REPEAT, C.MIN_REPEAT):
                walk(av[2])
            elif op is C.BRANCH:
                for br in av[1]:
                    walk(br)
            elif op is C.LITERAL and chr(av) in ".,":
                marks.add(chr(av))
    walk(tree)
    chk.ob("R15.2", MOD, "NUM_ERR_REGEX", "the decimal mark of the number pattern is '.' only (float() rejects ',')", marks == {"."}, node=node,
           fingerprint="decimal-mark", expected="{'.'}", found=sorted(marks))
    first = tree[0]
    chk.ob("R15.2", MOD, "NUM_ERR_REGEX", "group 1 (the number) opens the pattern",
           first[0] is C.SUBPATTERN and first[1][0] == 1, node=node, found=pat)


def r15_3(chk, mod):
    import re._parser as sre
    import re._constants as C
    # writers
    ts = mod.ev("Cif.to_string")
    ff = mod.ev("format_field")
    chk.saw(MOD, "Cif.to_string")
    chk.saw(MOD, "format_field")
    pred_scalar = [e for e in ts.events if e.kind == "call" and call_name(e.value.as_atom() or ()) == "needs_quote"]
    pred_loop = [e for e in ff.events if e.kind == "call" and call_name(e.value.as_atom() or ()) == "needs_quote"]
    chk.ob("R15.3", MOD, "Cif.to_string", "scalar items are quoted by the predicate needs_quote", bool(pred_scalar))
    # ... and written: one line `_name value` per scalar item of the block (name and value of the same item, the value between the quotes)
    from .generic import list_appends as _la
    sc_lines = [e for e in ts.events if e.kind == "call" and e.target is not None and e.target.key().endswith(".append") and e.extra.get("args")
                and any(pol and "is_scalar(" in c.key() for c, pol in e.guards)]
    oksc = False
    for e in sc_lines:
        pcs = pieces_of(e.extra["args"][0])
        if not pcs:
            continue
        fm_ = [p_ for p_ in pcs if p_.kind == "fmt"]
        vals = [p_.value.key() for p_ in fm_]
        item = [l for l in e.loops if l.kind in ("items", "iter", "zip")]
        oksc = oksc or (pcs[0].kind == "lit" and pcs[0].text == "_" and len(fm_) >= 2 and any(c.key() == f"is_scalar({v})" for v in vals for c, pol in e.guards if pol)
                        and any(p_.kind == "lit" and p_.text.strip() == "" and p_.text != "" for p_ in pcs[1:]))
    chk.ob("R15.3", MOD, "Cif.to_string", "every scalar item is written as a line `_name value` (the value that was tested, between the quotes)", oksc,
           fingerprint="scalar-line", found=[str(e.extra["args"][0])[:100] for e in sc_lines][:2])
    chk.ob("R15.3", MOD, "format_field", "loop fields are quoted by the same predicate needs_quote", bool(pred_loop))
    # what the predicate must say yes to: a string that written bare would not be read back as that one value
    nq = mod.ev("needs_quote")
    chk.saw(MOD, "needs_quote")
    sp = nq.param_names[0]
    empty = any(r.value.key() == "True" and any(pol and c.key() in (f"(eq '' {sp})", f"(eq {sp} '')", f"(not {sp})", f"(eq 0 len({sp}))") for c, pol in r.guards)
                for r in nq.returns)
    chk.ob("R15.3", MOD, "needs_quote", "the empty string is quoted (written bare there is no value and the reader takes the next line)", empty,
           fingerprint="quote-empty", found=[f"{r.value} if {[('' if p else 'not ') + str(c)[:40] for c, p in r.guards][-1:]}" for r in nq.returns][:4])
    # what decides the answer: the conditions on the way to each return and boolean expressions returned directly
    gtext = " ".join([c.key() for r in nq.returns for c, pol in r.guards] + [r.value.key() for r in nq.returns if r.value.key() not in ("True", "False")])
    reserved = all(tok in gtext for tok in ("_", "#", "data_", "loop_")) and (f"{sp}[0]" in gtext or "startswith" in gtext)
    chk.ob("R15.3", MOD, "needs_quote", "a string starting with a reserved token ('_', '#', 'data_', 'loop_') is quoted (bare, the reader takes the line "
           "for a data name, a comment or a new block and ends the loop)", reserved, fingerprint="quote-reserved", found=gtext[:200])
    numeric = "NUM_ERR_REGEX" in " ".join(c.key() + str(r.value.key()) for r in nq.returns for c, pol in r.guards) or \
        any(e.kind == "call" and ("NUM_ERR_REGEX" in e.value.key() or "parse_value" in e.value.key() or "float(" in e.value.key()) for e in nq.events)
    chk.ob("R15.3", MOD, "needs_quote", "a string that the reader would take for a number ('123', '1e5', '1.50') is quoted, so that it comes back as a "
           "string", numeric, fingerprint="quote-numeric", expected="quote when NUM_ERR_REGEX matches the whole string",
           found="the predicate never looks at the number pattern")
    # one parse per value: parse_data_name hands the raw text to parse_value exactly once
    pd = mod.ev("Cif.parse_data_name")
    chk.saw(MOD, "Cif.parse_data_name")
    st = [e for e in pd.events if e.kind == "store" and "current_data_block" in e.target.key()]
    chk.need(st, "Cif.parse_data_name: store into the current data block not found")
    nested = [e for e in st if e.value.key().count("parse_value(") > 1]
    chk.ob("R15.3", MOD, "Cif.parse_data_name", "a value is parsed once (parse_value is applied to text, never to an already parsed value)", not nested,
           node=nested[0].node if nested else None, fingerprint="single-parse", found=str(nested[0].value)[:160] if nested else None)
    # delimiters used
    delims = set()
    for e in ff.returns:
        pcs = pieces_of(e.value)
        if pcs and len(pcs) == 3 and pcs[0].kind == "lit" and pcs[2].kind == "lit" and pcs[1].kind == "fmt":
            if pcs[0].text == pcs[2].text:
                delims.add(pcs[0].text)
            else:
                delims.add(pcs[0].text + "|" + pcs[2].text)
    for e in ts.events:
        if e.kind == "assign" and e.name == "quote":
            sv = string_value(e.value)
            if sv:
                delims.add(sv)
    chk.need(delims, "no quote delimiter found in the writers")
    # needs_quote: a string without blanks is never quoted; a string with a blank (and no quote char) is
    nq = mod.ev("needs_quote")
    chk.saw(MOD, "needs_quote")
    last = nq.returns.pick(-1).value
    has_space = False
    for r in nq.returns:
        ra = r.value.as_atom()
        if r.value.key() == "True":
            # if " " in string: return True
            has_space = has_space or any(pol and c.as_atom() and c.as_atom()[0] == "in" and string_value(c.as_atom()[1]) == " " for c, pol in r.guards)
        elif ra and ra[0] in ("and", "or"):
            # `" " in s and <no quote char>` / `<reserved start> or " " in s` (the quote-char case answered before): the blank decides
            has_space = has_space or any(x.as_atom() and x.as_atom()[0] == "in" and string_value(x.as_atom()[1]) == " " for x in ra[1])
        elif ra and ra[0] == "in":
            has_space = has_space or string_value(ra[1]) == " "
    # the predicate as a truth table: its tests are Boolean features of the string (empty, contains a blank, contains ' / ", starts with a
    # reserved character / keyword); over all combinations the answer must be  empty or (no quote mark and (reserved start or blank)).
    # (A test the table does not know - the number pattern of the open finding - is a further feature; with it false the table must hold.)
    sp_ = nq.param_names[0]

    def feature(c):
        a = c.as_atom()
        k = c.key()
        if a is None:
            return None
        if a[0] == "in" and string_value(a[1]) == " " and a[2].key() == sp_:
            return "blank"
        if a[0] == "in" and string_value(a[1]) in ("'", '"') and a[2].key() == sp_:
            return "quote" + string_value(a[1])
        if a[0] == "in" and a[1].key() == f"{sp_}[0]" and string_value(a[2]) is not None:
            return "first-char" if set("_#$;") <= set(string_value(a[2])) else None
        if a[0] == "call" and call_name(a) == ".startswith" and a[1].as_atom()[1].key() == sp_ and a[2]:
            pre = {string_value(x) for x in (seq_items(a[2][0]) or [a[2][0]])}
            return "keyword" if {"data_", "loop_"} <= pre else None
        if k in (f"(eq '' {sp_})", f"(eq {sp_} '')", f"(eq 0 len({sp_}))"):
            return "empty"
        if k == f"isinstance({sp_}, str)":
            return "is-str"
        return None

    def truth(c, env, unknown):
        a = c.as_atom()
        if c.key() in ("True", "False"):
            return c.key() == "True"
        f = feature(c)
        if f is not None:
            return env[f]
        if a and a[0] in ("or", "and"):
            vals = [truth(x, env, unknown) for x in a[1]]
            return any(vals) if a[0] == "or" else all(vals)
        if a and a[0] == "not":
            return not truth(a[1], env, unknown)
        if a and a[0] == "ite":
            return truth(a[2] if truth(a[1], env, unknown) else a[3], env, unknown)
        if c.key() == sp_:
            return not env["empty"]
        unknown.add(c.key()[:60])
        return False
    import itertools as _it
    feats = ["empty", "blank", "quote'", 'quote"', "first-char", "keyword"]
    wrong, unknown = [], set()
    for bits in _it.product((False, True), repeat=len(feats)):
        env = dict(zip(feats, bits))
        env["is-str"] = True
        if env["empty"] and any(env[f] for f in feats[1:]):
            continue                         # the empty string has none of the other features
        got = None
        for r in nq.returns:
            if all(truth(c, env, unknown) == pol for c, pol in r.guards):
                got = truth(r.value, env, unknown)
                break
        want = env["empty"] or (not (env["quote'"] or env['quote"']) and (env["first-char"] or env["keyword"] or env["blank"]))
        if got != want:
            wrong.append(("+".join(f for f in feats if env[f]) or "plain word") + f": {got}, should be {want}")
    chk.ob("R15.3", MOD, "needs_quote", "over every combination of its tests (empty, blank, quote marks, reserved first character, reserved keyword) the "
           "predicate answers: empty, or no quote mark and (reserved start or blank)", not wrong, fingerprint="quote-truth-table",
           expected="quote <=> empty or (no ' and no \" and (reserved start or blank))", found=(wrong[:3] + ([f"tests outside the table: {sorted(unknown)}"] if unknown else [])))
    chk.ob("R15.3", MOD, "needs_quote", "strings containing a blank are the ones that get quoted (unquoted strings are one \\S+ token)",
           has_space, found=str(last))
    # tokenizer: quoted alternatives come before \S+
    pat, node = regex_literal(mod, "VALUES_REGEX")
    tree = list(sre.parse(pat))
    branches = None
    t = tree
    if len(t) == 1 and t[0][0] is C.SUBPATTERN:
        t = list(t[0][1][3])
    if len(t) == 1 and t[0][0] is C.BRANCH:
        branches = [list(b) for b in t[0][1][1]]
    chk.need(branches is not None, "VALUES_REGEX is no longer a single alternation")
    order = []
    for b in branches:
        if b and b[0][0] is C.LITERAL and b[-1][0] is C.LITERAL and b[0][1] == b[-1][1] and len(b) >= 3:
            lazy = b[1][0] is C.MIN_REPEAT
            order.append(("quoted", chr(b[0][1]), lazy))
        elif len(b) == 1 and b[0][0] is C.MAX_REPEAT and list(b[0][1][2]) == [(C.IN, [(C.CATEGORY, C.CATEGORY_NOT_SPACE)])]:
            order.append(("nonspace",))
        else:
            order.append(("other",))
    ns = [i for i, o in enumerate(order) if o[0] == "nonspace"]
    for d in sorted(delims):
        qi = [i for i, o in enumerate(order) if o[0] == "quoted" and o[1] == d]
        chk.ob("R15.3", MOD, "VALUES_REGEX", f"a value quoted with {d!r} is one token: its alternative precedes \\S+ and is non-greedy",
               bool(qi) and bool(ns) and qi[0] < ns[0] and order[qi[0]][2], node=node, fingerprint=f"tok:{d}", found=pat)
    # parse_value strips that delimiter
    pv = mod.ev("parse_value")
    stripped = set()
    for e in pv.events:
        if e.kind == "test":
            for a in find_atoms(e.value, lambda a: a[0] == "in"):
                it = seq_items(a[2])
                if it:
                    stripped.update(string_value(x) for x in it if string_value(x))
    # ... and only such a value: the quotes are taken off when the first and the last character are the same AND that character is a
    # delimiter, with that character as the delimiter
    pq = [r for r in pv.returns if r.value is not None and call_name(r.value.as_atom() or ()) == "parse_quote"]
    okq = bool(pq)
    for r in pq:
        held = [c.as_atom() for c, pol in r.guards if pol and c.as_atom()]
        same_ends = [a for a in held if a[0] == "eq" and a[1].as_atom() and a[2].as_atom() and a[1].as_atom()[0] == "sub" and a[2].as_atom()[0] == "sub"
                     and a[1].as_atom()[1].key() == a[2].as_atom()[1].key()
                     and {x.as_atom()[2][0].const_value() for x in (a[1], a[2]) if len(x.as_atom()[2]) == 1} == {0, -1}]
        is_delim = [a for a in held if a[0] == "in" and a[1].key().endswith("[0]") and seq_items(a[2]) is not None]
        kw_ = dict(r.value.as_atom()[3]) if len(r.value.as_atom()) > 3 and r.value.as_atom()[3] else {}
        dl = kw_.get("delimiter") or (r.value.as_atom()[2][1] if len(r.value.as_atom()[2]) > 1 else None)
        okq = okq and bool(same_ends) and bool(is_delim) and dl is not None and dl.key() == is_delim[0][1].key() \
            and same_ends[0][1].as_atom()[1].key() == is_delim[0][1].as_atom()[1].key()
    chk.ob("R15.3", MOD, "parse_value", "quotes are taken off only when the first and the last character are the same delimiter character, and with that "
           "character as the delimiter", okq, fingerprint="strip-condition", expected="s[0] == s[-1] and s[0] in (delimiters): parse_quote(string, delimiter=s[0])",
           found=[f"{'' if p else 'not '}{str(c)[:70]}" for r in pq for c, p in r.guards][-3:])
    for d in sorted(delims):
        chk.ob("R15.3", MOD, "parse_value", f"a value delimited by {d!r} loses its quotes on parsing", d in stripped,
               fingerprint=f"strip:{d}", found=sorted(stripped))
    pq = mod.ev("parse_value")
    calls = [e for e in pq.events if e.kind == "call" and call_name(e.value.as_atom() or ()) == "parse_quote"]
    okd = any(dict(e.extra["kwargs"]).get("delimiter") is not None and "[0]" in dict(e.extra["kwargs"])["delimiter"].key()
              for e in calls)
    chk.ob("R15.3", MOD, "parse_value", "the quote is removed with the delimiter actually found at the ends of the value", okd)


def r15_4(chk, mod):
    q = "Cif.to_string"
    ev = mod.ev(q)
    lines_obj = None
    for e in ev.events:
        if e.kind == "assign" and e.name == "lines":
            lines_obj = e.value
    chk.need(lines_obj is not None, f"{q}: 'lines' list not found")
    appends = list_appends(ev, lines_obj)
    # name / column pairing in the same loop iteration
    name_app = [e for e in appends if pieces_of(e.extra["args"][0]) and pieces_of(e.extra["args"][0])[0].kind == "lit"
                and pieces_of(e.extra["args"][0])[0].text == "_" and len(e.loops) >= 3]
    col_app = [e for e in ev.events if e.kind == "call" and e.target is not None and e.target.key().endswith(".append")
               and "loop_values" in e.target.key()]
    ok = len(name_app) == 1 and len(col_app) == 1 and name_app[0].loops == col_app[0].loops
    same_name = False
    if ok:
        nm = pieces_of(name_app[0].extra["args"][0])[1].value
        colv = col_app[0].extra["args"][0].as_atom()
        same_name = bool(colv and colv[0] == "sub" and colv[2][0].key() == nm.key())
    # the same pairing written as two comprehensions over one and the same list of names:
    #   lines.extend(f"_{name}" for name in names); loop_values = [data[name] for name in names]
    import re as _re
    noit = lambda k_: _re.sub(r"_it#\d+", "_it", k_)
    formB = False
    if not (ok and same_name):
        name_ext = [e for e in appends if e.extra.get("comp") and len(e.extra["comp"]) == 1 and not e.extra["comp"][0][2] and pieces_of(e.extra["args"][0])
                    and pieces_of(e.extra["args"][0])[0].kind == "lit" and pieces_of(e.extra["args"][0])[0].text == "_" and len(e.loops) >= 2]
        cols = [e for e in ev.events if e.kind == "assign" and e.name == "loop_values" and e.value is not None]
        if len(name_ext) == 1 and len(cols) == 1:
            src = name_ext[0].extra["comp"][0][1]
            ca_ = obj_init(cols[0].value).as_atom()
            if ca_ and ca_[0] == "comp" and ca_[1] == "ListComp" and len(ca_) == 4 and len(ca_[3]) == 1 and not ca_[3][0][2] \
                    and ca_[3][0][1].key() == src.key() and name_ext[0].loops == cols[0].loops:
                nm = pieces_of(name_ext[0].extra["args"][0])[1].value
                ce = ca_[2].as_atom()
                formB = bool(ce and ce[0] == "sub" and len(ce[2]) == 1 and noit(ce[2][0].key()) == noit(nm.key()))
                if formB:
                    name_app, col_app = name_ext, cols
    chk.ob("R15.4", MOD, q, "each loop name line is appended together with its own column, in one loop", (ok and same_name) or formB)
    # loop_ header precedes
    hdr = [e for e in appends if string_value(e.extra["args"][0]) == "loop_"]
    chk.ob("R15.4", MOD, q, "every group of columns is introduced by a 'loop_' line", len(hdr) == 1 and
           bool(name_app) and len(hdr[0].loops) == len(name_app[0].loops) - (0 if formB else 1))
    # rows: zip(*loop_values), joined by blanks, one append per row
    row_app = [e for e in appends if "join" in e.extra["args"][0].key() and "format_field" in e.extra["args"][0].key()]
    okrow = False
    if len(row_app) == 1:
        loop = row_app[0].loops[-1]
        it = loop.iter.as_atom() if loop.iter is not None else None
        if row_app[0].extra.get("comp") and len(row_app[0].extra["comp"]) == 1 and not row_app[0].extra["comp"][0][2]:
            it = row_app[0].extra["comp"][0][1].as_atom()          # lines.extend(" ".join(...) for row in zip(*loop_values))
        # the columns as collected: wrapped in np.array(...) they would be coerced to one dtype (an integer column next to a float column
        # is written - and read back - as floats, next to a string column as strings)
        colobjs = ({e.value.key() for e in col_app} if formB else {e.target.as_atom()[1].key() for e in col_app}) if col_app else set()
        okrow = bool(it and call_name(it) == "zip" and it[2] and it[2][0].as_atom() and it[2][0].as_atom()[0] == "starred"
                     and it[2][0].as_atom()[1].key() in colobjs)
        sep = row_app[0].extra["args"][0].as_atom()
        okrow = okrow and bool(sep and call_name(sep) == ".join" and string_value(sep[1].as_atom()[1]) == " ")
    chk.ob("R15.4", MOD, q, "rows are the zip of the group's columns, fields separated by a blank, one row per line", okrow)
    # equal lengths: grouped by len
    gb = [e for e in ev.events if e.kind == "call" and call_name(e.value.as_atom() or ()) == "itertools.groupby"]
    oklen = any("len(" in dict(e.extra["kwargs"]).get("key", P.const(0)).key() for e in gb)
    strict = any(dict(e.extra["kwargs"]).get("strict") is not None for e in ev.events if e.kind == "call"
                 and call_name(e.value.as_atom() or ()) == "zip")
    chk.ob("R15.4", MOD, q, "columns zipped together have equal length (grouped by length, or zip(strict=True))", oklen or strict)
    # the names grouped into loops are those of the block being written: the list the grouping reads is created in the same
    # iteration of the block loop that fills and reads it (created once before the loop it still holds the previous blocks' names)
    fresh, nm_found = False, None
    for e in gb:
        arg = e.extra["args"][0] if e.extra.get("args") else None
        aa = arg.as_atom() if arg is not None else None
        if aa and aa[0] == "obj" and e.loops:
            born = [b for b in ev.events if b.kind == "assign" and b.value is not None and b.value.key() == arg.key()]
            nm_found = aa[1]
            fresh = bool(born) and bool(born[0].loops) and born[0].loops[0] is e.loops[0]
            break
    chk.ob("R15.4", MOD, q, "the loop item names grouped for a block are collected for that block (the list is created inside the loop over blocks)",
           fresh, fingerprint="names-per-block", found=f"list '{nm_found}' is created outside the loop over data blocks" if nm_found and not fresh else nm_found)
    # terminating non-data line and newline join
    end = [e for e in appends if not e.loops and string_value(e.extra["args"][0]) is not None]
    okend = bool(end) and any((string_value(e.extra["args"][0]) or "").startswith(("#", "_", "data_", "loop_")) for e in end[-1:])
    chk.ob("R15.4", MOD, q, "the text ends with a non-data line so that a trailing loop terminates", okend,
           found=[string_value(e.extra["args"][0]) for e in end])
    ret = ev.returns[-1].value.as_atom()
    chk.ob("R15.4", MOD, q, "lines are joined with newlines", bool(ret and call_name(ret) == ".join"
           and string_value(ret[1].as_atom()[1]) == "\n" and ret[2][0].key() == lines_obj.key()))
    blk = [e for e in appends if pieces_of(e.extra["args"][0]) and pieces_of(e.extra["args"][0])[0].kind == "lit"
           and pieces_of(e.extra["args"][0])[0].text == "data_"]
    chk.ob("R15.4", MOD, q, "every block is introduced by a 'data_<name>' line before its items", len(blk) == 1 and len(blk[0].loops) == 1)
    # reader side: block name is what follows 'data_'
    pb = mod.ev("Cif.parse_data_block_name")
    okb = any(e.kind == "store" and e.target.key() == "self.current_data_block_name" and "[(slice 5 None None)]" in e.value.key()
              and ".strip()" in e.value.key() for e in pb.events)
    chk.ob("R15.4", MOD, "Cif.parse_data_block_name", "the block name is the text after the 5 characters 'data_'", okb)


def r15_5(chk, mod):
    import re._parser as sre
    import re._constants as C
    pat, node = regex_literal(mod, "NUM_ERR_REGEX")
    tree = list(sre.parse(pat))
    # expected shape: group1[ sign? group2[ digits+ (sep digits*)? | sep digits+ ] exponent? ] uncertainty?
    g1 = list(tree[0][1][3]) if tree and tree[0][0] is C.SUBPATTERN else []

    def cls_chars(item):
        if item[0] is C.IN:
            out = set()
            for k, v in item[1]:
                if k is C.LITERAL:
                    out.add(chr(v))
                elif k is C.RANGE:
                    out.update(chr(c) for c in range(v[0], v[1] + 1))
                elif k is C.CATEGORY and v is C.CATEGORY_DIGIT:
                    out.update("0123456789")
            return out
        if item[0] is C.LITERAL:
            return {chr(item[1])}
        return set()

    sign_ok = bool(g1) and g1[0][0] is C.MAX_REPEAT and g1[0][1][0] == 0 and "-" in cls_chars(list(g1[0][1][2])[0])
    chk.ob("R15.5", MOD, "NUM_ERR_REGEX", "an optional leading sign including '-' is accepted", sign_ok, node=node, found=pat)
    mant = g1[1] if len(g1) > 1 else None
    int_ok = frac_ok = False
    if mant and mant[0] is C.SUBPATTERN:
        inner = list(mant[1][3])
        if len(inner) == 1 and inner[0][0] is C.BRANCH:
            for br in inner[0][1][1]:
                br = list(br)
                if br and br[0][0] is C.MAX_REPEAT and br[0][1][0] >= 1 and cls_chars(list(br[0][1][2])[0]) >= set("0123456789"):
                    int_ok = True
                    if len(br) > 1 and br[1][0] is C.MAX_REPEAT and br[1][1][0] == 0:
                        sub = list(br[1][1][2])
                        if sub and sub[0][0] is C.SUBPATTERN:
                            seq = list(sub[0][1][3])
                            frac_ok = bool(seq) and "." in cls_chars(seq[0]) and len(seq) > 1 and seq[1][0] is C.MAX_REPEAT
    chk.ob("R15.5", MOD, "NUM_ERR_REGEX", "digits with an optional '.'-fraction are accepted (fixed-point and integer formats)",
           int_ok and frac_ok, node=node, found=pat)
    exp_ok = False
    if len(g1) > 2 and g1[2][0] is C.MAX_REPEAT and g1[2][1][0] == 0:
        sub = list(g1[2][1][2])
        if sub and sub[0][0] is C.SUBPATTERN:
            seq = list(sub[0][1][3])
            exp_ok = len(seq) == 3 and {"e"} <= cls_chars(seq[0]) and seq[1][0] is C.MAX_REPEAT and seq[1][1][0] == 0 \
                and {"-", "+"} <= cls_chars(list(seq[1][1][2])[0]) and seq[2][0] is C.MAX_REPEAT
    chk.ob("R15.5", MOD, "NUM_ERR_REGEX", "an optional exponent e[+-]digits is accepted (repr of small/large floats)", exp_ok,
           node=node, found=pat)
    # writer formats
    ff = mod.ev("format_field")
    seen = {}
    for e in ff.returns:
        pcs = pieces_of(e.value)
        if pcs and len(pcs) == 1 and pcs[0].kind == "fmt":
            typ = None
            for c, pol in e.guards:
                a = c.as_atom()
                if pol and a and call_name(a) == "isinstance":
                    typ = a[2][1].key()
            seen[typ] = pcs[0].spec
    fl, it = seen.get("float"), seen.get("int")
    from ..layout import float_roundtrips
    flp = None
    for e in ff.returns:
        pcs = pieces_of(e.value)
        if pcs and len(pcs) == 1 and pcs[0].kind == "fmt" and any(pol and call_name(c.as_atom() or ()) == "isinstance" and c.as_atom()[2][1].key() == "float"
                                                                  for c, pol in e.guards):
            flp = pcs[0]
    chk.ob("R15.5", MOD, "format_field", "floats are written so that they read back to the same value (repr, or >= 17 significant digits): a fixed number "
           "of decimals loses small values", flp is not None and float_roundtrips(flp) and fl.valid and fl.group is None and fl.type in (None, "", "s", "e", "g", "E", "G"),
           fingerprint="float-roundtrip", expected="f'{float(x)!r:>20}'", found=repr(flp))
    chk.ob("R15.5", MOD, "format_field", "the float text is in the reader's number language (repr of a finite float: digits, '.', optional e[+-]dd)",
           flp is not None and (flp.conv == "r" and call_name(flp.value.as_atom() or ()) in ("float", None) or flp.spec.type in ("e", "g", "f")),
           fingerprint="float-language", found=repr(flp))
    chk.ob("R15.5", MOD, "format_field", "integers are written with 'd' and no grouping",
           it is not None and it.type == "d" and it.valid and it.fill in (None, " ") and it.group is None, found=it.text if it else None)
    # the int branch must not capture bools/floats: float test precedes
    order = [k for k in seen]
    chk.ob("R15.5", MOD, "format_field", "strings are returned as text (quoted when needed), never formatted as numbers",
           any(e.guards and any("isinstance" in c.key() and "str" in c.key() and pol for c, pol in e.guards) for e in ff.returns))


def _regex_quote_blind(pat):
    """(quote_aware, anchored) of a regular expression (syntax tree, re._parser)."""
    import re._parser as sre
    tree = sre.parse(pat)

    def lits(sub):
        out = set()
        for op, av in sub:
            opn = str(op)
            if opn in ("LITERAL", "NOT_LITERAL"):
                out.add(av)
            elif opn == "IN":
                out |= {x for o2, x in av if str(o2) == "LITERAL"}
            elif opn in ("MAX_REPEAT", "MIN_REPEAT", "POSSESSIVE_REPEAT"):
                out |= lits(av[2])
            elif opn == "SUBPATTERN":
                out |= lits(av[3])
            elif opn == "BRANCH":
                for b in av[1]:
                    out |= lits(b)
            elif opn in ("ASSERT", "ASSERT_NOT"):
                out |= lits(av[1])
        return out
    return bool(lits(tree) & {34, 39}), (len(tree) > 0 and str(tree[0][0]) == "AT" and "BEGINNING" in str(tree[0][1]))


def reader_substitutions(chk, mod):
    """Every regex substitution applied to the text on the reading side (any function of fmt/cif.py that is not a writer): a pattern that
    can match anywhere in a line and does not look at quotes deletes text inside quoted values."""
    consts = {}
    for t in mod.tree.body:
        if isinstance(t, ast.Assign) and isinstance(t.targets[0], ast.Name) and isinstance(t.value, ast.Call) \
                and getattr(t.value.func, "attr", None) == "compile" and t.value.args and isinstance(t.value.args[0], ast.Constant):
            consts[t.targets[0].id] = t.value.args[0].value
    writers = ("to_string", "format_field", "needs_quote", "to_file", "__str__", "__repr__")
    n = 0
    for qual, fn in mod.funcs.items():
        if qual.split(".")[-1] in writers:
            continue
        for node in ast.walk(fn):
            if not (isinstance(node, ast.Call) and isinstance(node.func, ast.Attribute) and node.func.attr in ("sub", "subn")):
                continue
            pat = None
            recv = node.func.value
            if isinstance(recv, ast.Name) and recv.id in consts:
                pat = consts[recv.id]
            elif isinstance(recv, ast.Name) and recv.id == "re" and node.args and isinstance(node.args[0], ast.Constant):
                pat = node.args[0].value
            elif isinstance(recv, ast.Name) and recv.id == "re" and node.args and isinstance(node.args[0], ast.Name) and node.args[0].id in consts:
                pat = consts[node.args[0].id]
            if pat is None:
                continue
            n += 1
            qa, anch = _regex_quote_blind(pat)
            chk.ob("R15.6", MOD, qual, "a regex substitution on the reading side is anchored at the start of the line or looks at quotes "
                   "(otherwise it removes text inside quoted values, and the tokens after it)", qa or anch, node=node,
                   fingerprint=f"reader-sub:{qual}", expected="no rewriting of data lines before tokenising", found=f"{ast.unparse(node)[:80]} with pattern {pat!r}")
    return n


def r15_6(chk, mod):
    reader_substitutions(chk, mod)
    q = "Cif.from_string"
    ev = mod.ev(q)
    chk.saw(MOD, q)
    parses = [e for e in ev.events if e.kind == "call" and e.target is not None and e.target.key().endswith(".parse") and not e.guards and not e.loops]
    ret = ev.returns[-1].value if ev.returns else None
    chk.ob("R15.6", MOD, q, "from_string parses the text it was given: parse() is called, unconditionally, on the object that is returned",
           bool(parses) and ret is not None and parses[0].target.key() == f"{ret}.parse" or bool(parses) and ret is not None and ret.as_atom() and ret.as_atom()[0] == "obj"
           and parses[0].target.as_atom()[1].key() == ret.key(), fingerprint="parses", found=[str(e.target)[:60] for e in parses])
    st = [e for e in ev.events if e.kind == "store" and e.target.key().endswith(".content_lines")]
    chk.need(len(st) == 1, f"{q}: store of content_lines not found")
    v = st[0].value
    c = ev.param_names[1]
    raw = v.key() in (f"{c}.split('\\n')", f"{c}.splitlines()", f"{c}.split('\n')")
    if raw:
        chk.ob("R15.6", MOD, q, "content_lines are the lines of the contents, unchanged", True, fingerprint="raw-lines")
        return
    a = v.as_atom()
    fnname = None
    if a and a[0] == "comp":
        el = a[2].as_atom()
        if el and el[0] == "call" and el[1].as_atom() and el[1].as_atom()[0] == "name":
            fnname = el[1].as_atom()[1].split(".")[-1]
    if fnname and fnname in mod.funcs:
        src = ast.unparse(mod.funcs[fnname])
        pats = [mod.seg(n) for n in ast.walk(mod.tree) if isinstance(n, ast.Call) and getattr(n.func, "attr", None) == "compile"]
        used = [t for t in mod.tree.body if isinstance(t, ast.Assign) and isinstance(t.targets[0], ast.Name) and t.targets[0].id in src]
        text = src + " ".join(mod.seg(t) for t in used)
        quote_aware = ("'\"'" in text) or ('"\'"' in text) or ("\\'" in text) or ("quote" in text.lower())
        if ".sub(" in text and not quote_aware:
            chk.ob("R15.6", MOD, q, "content_lines are the lines of the contents, unchanged", False, node=st[0].node, fingerprint="raw-lines",
                   expected=f"{c}.split('\\n')", found=f"every line is rewritten by {fnname}() (a regex substitution that does not look at quotes): "
                   "text after ' #' inside a quoted value is dropped")
            return
    # a regex substitution applied to every line directly:  [REGEX.sub(repl, line) for line in contents.split("\n")]
    if a and a[0] == "comp":
        el = a[2].as_atom()
        f = el[1].as_atom() if el and el[0] == "call" and isinstance(el[1], P) else None
        if f and f[0] == "attr" and f[2] == "sub" and f[1].as_atom() and f[1].as_atom()[0] == "name":
            rname = f[1].as_atom()[1].split(".")[-1]
            pat = None
            for t in mod.tree.body:
                if isinstance(t, ast.Assign) and isinstance(t.targets[0], ast.Name) and t.targets[0].id == rname and isinstance(t.value, ast.Call) \
                        and getattr(t.value.func, "attr", None) == "compile" and t.value.args and isinstance(t.value.args[0], ast.Constant):
                    pat = t.value.args[0].value
            if pat is not None:
                import re._parser as sre
                tree = sre.parse(pat)

                def lits(sub):
                    out = set()
                    for op, av in sub:
                        opn = str(op)
                        if opn == "LITERAL" or opn == "NOT_LITERAL":
                            out.add(av)
                        elif opn == "IN":
                            out |= {x for o2, x in av if str(o2) == "LITERAL"}
                        elif opn in ("MAX_REPEAT", "MIN_REPEAT", "POSSESSIVE_REPEAT"):
                            out |= lits(av[2])
                        elif opn == "SUBPATTERN":
                            out |= lits(av[3])
                        elif opn == "BRANCH":
                            for b in av[1]:
                                out |= lits(b)
                        elif opn in ("ASSERT", "ASSERT_NOT"):
                            out |= lits(av[1])
                    return out
                quote_aware = bool(lits(tree) & {34, 39})
                anchored = len(tree) > 0 and str(tree[0][0]) == "AT" and "BEGINNING" in str(tree[0][1])
                if not quote_aware and not anchored:
                    chk.ob("R15.6", MOD, q, "content_lines are the lines of the contents, unchanged", False, node=st[0].node, fingerprint="raw-lines",
                           expected=f"{c}.split('\\n')", found=f"every line is rewritten by {rname}.sub(...) with the pattern {pat!r}, which can match anywhere in a line and "
                           "does not look at quotes: text inside a quoted value (and the tokens after it) is dropped")
                    return
    raise AnalysisError(f"{q}: content_lines is neither the raw split of the contents nor a recognised per-line rewrite: {str(v)[:120]}")
