"""Exact model of chmpy's packed symmetry operations and of the space-group table.

An operation is (R, t): R a 9-tuple of ints in {-1,0,1} (row major), t a 3-tuple of ints mod 12 (twelfths).
The packing (ternary digits for R+1, duodecimal digits for t, most significant first) is the model's own;
rules/c11.py extracts the weights the code uses and fails if the two disagree.
"""
from __future__ import annotations

from functools import lru_cache

R_WEIGHTS = tuple(3 ** (8 - k) for k in range(9))          # element (i, j) -> 3**(8 - 3i - j)
T_WEIGHTS = tuple(12 ** (2 - k) for k in range(3))
ROT_RADIX = 3 ** 9
CODE_LIMIT = ROT_RADIX * 12 ** 3


@lru_cache(maxsize=None)
def decode(code: int):
    r = code % ROT_RADIX
    t = code // ROT_RADIX
    R = tuple((r // w) % 3 - 1 for w in R_WEIGHTS)
    T = tuple((t // w) % 12 for w in T_WEIGHTS)
    return R, T


def encode(R, T) -> int:
    r = sum((x + 1) * w for x, w in zip(R, R_WEIGHTS))
    t = sum((x % 12) * w for x, w in zip(T, T_WEIGHTS))
    return r + t * ROT_RADIX


IDENTITY = encode((1, 0, 0, 0, 1, 0, 0, 0, 1), (0, 0, 0))
INVERSION = encode((-1, 0, 0, 0, -1, 0, 0, 0, -1), (0, 0, 0))
MINUS_I = (-1, 0, 0, 0, -1, 0, 0, 0, -1)


def compose(a, b):
    """(Ra, ta) o (Rb, tb): x -> Ra (Rb x + tb) + ta."""
    Ra, ta = a
    Rb, tb = b
    R = tuple(sum(Ra[3 * i + k] * Rb[3 * k + j] for k in range(3)) for i in range(3) for j in range(3))
    t = tuple((sum(Ra[3 * i + k] * tb[k] for k in range(3)) + ta[i]) % 12 for i in range(3))
    return R, t


def det(R):
    a, b, c, d, e, f, g, h, i = R
    return a * (e * i - f * h) - b * (d * i - f * g) + c * (d * h - e * g)


def inverse(a):
    R, t = a
    d = det(R)
    if d not in (1, -1):
        return None
    A, B, C, D, E, F, G, H, I = R
    adj = (E * I - F * H, C * H - B * I, B * F - C * E,
           F * G - D * I, A * I - C * G, C * D - A * F,
           D * H - E * G, B * G - A * H, A * E - B * D)
    Ri = tuple(x * d for x in adj)            # d is +-1 so division == multiplication
    ti = tuple((-sum(Ri[3 * i + k] * t[k] for k in range(3))) % 12 for i in range(3))
    return Ri, ti


def inverted(a):
    """chmpy's SymmetryOperation.inverted(): (-R, -t)."""
    R, t = a
    return tuple(-x for x in R), tuple((-x) % 12 for x in t)


def translated(a, tw):
    R, t = a
    return R, tuple((x + y) % 12 for x, y in zip(t, tw))


def valid_entries(R):
    return all(x in (-1, 0, 1) for x in R)
