"""Independent model of the marching-cubes lookup tables and of the cube geometry.

Tables are decoded from the AST literals of mc/lookup_tables.py ((shape, base64 text) pairs, int8) by this module's own
code; the module under analysis is never imported.  Geometry (corner positions, edge endpoints) is *not* assumed: it is
passed in by rules/c06.py after extracting it from the code (set_cube bit order, EDGETORELATIVEPOS*).
"""
from __future__ import annotations

import ast
import base64
from itertools import product


def decode_tables(tree: ast.Module):
    out = {}
    for st in tree.body:
        if isinstance(st, ast.Assign) and len(st.targets) == 1 and isinstance(st.targets[0], ast.Name):
            try:
                val = ast.literal_eval(st.value)
            except Exception:
                continue
            if isinstance(val, tuple) and len(val) == 2 and isinstance(val[0], tuple) and isinstance(val[1], str):
                shape, text = val
                raw = base64.decodebytes(text.encode("utf-8"))
                data = [b - 256 if b > 127 else b for b in raw]
                n = 1
                for s in shape:
                    n *= s
                if len(data) != n:
                    raise ValueError(f"table {st.targets[0].id}: {len(data)} bytes for shape {shape}")
                out[st.targets[0].id] = (tuple(shape), data)
    return out


def get(table, *idx):
    shape, data = table
    if len(idx) != len(shape):
        raise IndexError(f"{len(idx)} indices for shape {shape}")
    off = 0
    for i, s in zip(idx, shape):
        if not 0 <= i < s:
            raise IndexError(f"index {idx} outside shape {shape}")
        off = off * s + i
    return data[off]


def row(table, *idx):
    """Last-axis row at the leading indices."""
    shape, data = table
    if len(idx) != len(shape) - 1:
        raise IndexError("row() needs all but the last index")
    off = 0
    for i, s in zip(idx, shape[:-1]):
        if not 0 <= i < s:
            raise IndexError(f"index {idx} outside shape {shape}")
        off = off * s + i
    return data[off * shape[-1]:(off + 1) * shape[-1]]


class Cube:
    """corner_pos[k] = (x,y,z) in {0,1}^3 of the corner whose sign is bit k of the index; edges[e] = (corner a, corner b)."""

    def __init__(self, corner_pos, edge_ends):
        self.corner_pos = corner_pos
        pos_to_corner = {p: k for k, p in enumerate(corner_pos)}
        self.edges = []
        for (pa, pb) in edge_ends:
            self.edges.append((pos_to_corner[pa], pos_to_corner[pb]))
        # faces: (axis, value) -> corners on it
        self.faces = {}
        for ax in range(3):
            for v in (0, 1):
                self.faces[(ax, v)] = [k for k, p in enumerate(corner_pos) if p[ax] == v]

    def edge_mid(self, e):
        a, b = self.edges[e]
        pa, pb = self.corner_pos[a], self.corner_pos[b]
        return tuple((x + y) for x, y in zip(pa, pb))          # doubled coordinates (integers)

    def edge_faces(self, e):
        a, b = self.edges[e]
        return {f for f, cs in self.faces.items() if a in cs and b in cs}

    def sign(self, index, corner):
        return 1 if (index >> corner) & 1 else -1

    def crossing(self, index, e):
        a, b = self.edges[e]
        return self.sign(index, a) != self.sign(index, b)


def check_tiling(cube: Cube, index: int, tri):
    """tri: flat list of vertex ids (edge ids 0..11, 12 = interior vertex), 3 per triangle.
    Returns (problems, face_segments) where face_segments = [(face, a, b, orientation sign)]."""
    problems = []
    tris = [tuple(tri[i:i + 3]) for i in range(0, len(tri), 3)]
    for t in tris:
        for v in t:
            if v == 12:
                continue
            if not 0 <= v < 12:
                problems.append(f"vertex id {v} is not an edge")
            elif not cube.crossing(index, v):
                problems.append(f"edge {v} does not straddle the level for index {index}")
        if len(set(t)) != 3:
            problems.append(f"degenerate triangle {t}")
    if problems:
        return problems, []
    directed = {}
    for t in tris:
        for a, b in ((t[0], t[1]), (t[1], t[2]), (t[2], t[0])):
            if (a, b) in directed:
                problems.append(f"directed edge {a}->{b} used twice")
            directed[(a, b)] = True
    segments = []
    for (a, b) in directed:
        if (b, a) in directed:
            continue
        # boundary of the patch: both endpoints must be edge points on one common cube face
        if a == 12 or b == 12:
            problems.append(f"interior vertex on an unmatched edge {a}->{b}")
            continue
        common = cube.edge_faces(a) & cube.edge_faces(b)
        if len(common) != 1:
            problems.append(f"unmatched edge {a}->{b} does not lie in a single cube face")
            continue
        f = next(iter(common))
        segments.append((f, a, b))
    # per face: the boundary segments form a perfect matching of the face's crossing edges
    out = []
    for f, corners in cube.faces.items():
        fedges = [e for e in range(12) if f in cube.edge_faces(e)]
        crossing = sorted(e for e in fedges if cube.crossing(index, e))
        segs = [(a, b) for (ff, a, b) in segments if ff == f]
        used = sorted(x for s in segs for x in s)
        if used != crossing:
            problems.append(f"face {f}: boundary uses edges {used}, crossing edges are {crossing}")
            continue
        ax, v = f
        n = [0, 0, 0]
        n[ax] = 1 if v == 1 else -1
        for (a, b) in segs:
            pa, pb = cube.edge_mid(a), cube.edge_mid(b)
            d = [y - x for x, y in zip(pa, pb)]
            left = (n[1] * d[2] - n[2] * d[1], n[2] * d[0] - n[0] * d[2], n[0] * d[1] - n[1] * d[0])
            # corners of the face strictly on the left of the directed segment
            sides = {}
            for c in corners:
                pc = [2 * x for x in cube.corner_pos[c]]
                s = sum(l * (q - p) for l, q, p in zip(left, pc, pa))
                if s != 0:
                    sides.setdefault(1 if s > 0 else -1, set()).add(cube.sign(index, c))
            if len(crossing) == 2:
                # the segment separates positive from negative corners
                if sides.get(1, set()) == {1} and sides.get(-1, set()) == {-1}:
                    o = 1
                elif sides.get(1, set()) == {-1} and sides.get(-1, set()) == {1}:
                    o = -1
                else:
                    problems.append(f"face {f}: segment {a}->{b} does not separate the corner signs")
                    continue
            else:
                # ambiguous face: the segment cuts off the corner shared by its two edges
                shared = set(cube.edges[a]) & set(cube.edges[b])
                if len(shared) != 1:
                    problems.append(f"face {f}: segment {a}->{b} joins opposite edges of an ambiguous face")
                    continue
                c = next(iter(shared))
                pc = [2 * x for x in cube.corner_pos[c]]
                s = sum(l * (q - p) for l, q, p in zip(left, pc, pa))
                o = (1 if s > 0 else -1) * cube.sign(index, c)
            out.append((f, a, b, o))
    return problems, out
