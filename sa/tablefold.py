"""Tables a refactoring introduced are read back into the code that uses them.

"Replace an if-chain by a table" is a common maintenance edit: the branches move into a module-level (or class-level) tuple / dict
literal and the function loops over it or indexes it.  The rules were written against the branches.  For module- or class-level names
that are NOT part of today's tree (sa/known_funcs_auto.py: KNOWN_GLOBALS) and that are bound once to a literal table, this pass rewrites
a copy of the function's syntax tree so that the table is consulted at analysis time:

* ``for a, (b, c) in TABLE:`` / ``for i, row in enumerate(TABLE):`` with a literal table is unrolled.  A body that is one
  ``if <test>: ...; break`` (optionally with a for-else) becomes the if / elif / else chain it replaced; a body without break / continue
  becomes the sequence of its copies.
* ``TABLE[<constant>]`` is the element; ``TABLE[<bool expr>]`` of a dict keyed True / False is a conditional expression;
  ``TABLE.get(k, d)`` / ``TABLE[k]`` of a dict with constant keys and a non-constant key is a chain of conditional expressions on ``k == key``.
* ``Row(a, b).field`` for a ``namedtuple`` row type defined at module level is the positional argument; ``getattr(obj, "name")`` with a
  constant name is ``obj.name``.

Tables of today's tree are left alone (the rules know them as tables), so no verdict on today's tree changes.  The pass runs before and
after helper expansion (sa/inline.py), because constants often only appear once a helper's arguments have been written in.
"""
from __future__ import annotations

import ast
import copy

try:
    from .known_funcs_auto import KNOWN_GLOBALS
except ImportError:          # pragma: no cover
    KNOWN_GLOBALS = {}

MAX_ROWS = 24


def _literal(node) -> bool:
    """A table element the pass may copy around: constants, names, attribute chains, and tuples / lists / calls of those."""
    if isinstance(node, (ast.Constant, ast.Name)):
        return True
    if isinstance(node, ast.Attribute):
        return _literal(node.value)
    if isinstance(node, (ast.Tuple, ast.List)):
        return all(_literal(e) for e in node.elts)
    if isinstance(node, ast.UnaryOp) and isinstance(node.operand, ast.Constant):
        return True
    if isinstance(node, ast.BinOp):
        return _literal(node.left) and _literal(node.right)
    if isinstance(node, ast.Call) and isinstance(node.func, (ast.Name, ast.Attribute)) and not node.keywords:
        return all(_literal(a) for a in node.args)
    if isinstance(node, ast.Lambda):
        return True             # a function written in place: copied as it stands
    return False


def _immutable(node) -> bool:
    """Constants, tuples of constants, and compiled patterns of constant text: a name bound once to such a value can be read as the value."""
    if isinstance(node, ast.Constant):
        return True
    if isinstance(node, ast.UnaryOp) and isinstance(node.op, ast.USub) and isinstance(node.operand, ast.Constant):
        return True
    if isinstance(node, ast.Tuple):
        return all(_immutable(e) for e in node.elts)
    if isinstance(node, ast.Call) and ast.unparse(node.func) in ("re.compile",) and node.args and all(isinstance(a, ast.Constant) for a in node.args) \
            and all(isinstance(k.value, (ast.Constant, ast.Attribute)) for k in node.keywords):
        return True
    return False


def new_scalars(mod):
    """{name: value node} for module-level names today's tree does not have, bound once to an immutable value."""
    known = set(KNOWN_GLOBALS.get(mod.rel, ()))
    if mod.rel not in KNOWN_GLOBALS:
        return {}
    out, count = {}, {}
    for st in mod.tree.body:
        if isinstance(st, ast.Assign) and len(st.targets) == 1 and isinstance(st.targets[0], ast.Name):
            nm = st.targets[0].id
            count[nm] = count.get(nm, 0) + 1
            if nm not in known and _immutable(st.value):
                out[nm] = st.value
        elif isinstance(st, ast.AnnAssign) and isinstance(st.target, ast.Name) and st.value is not None:
            nm = st.target.id
            count[nm] = count.get(nm, 0) + 1
            if nm not in known and _immutable(st.value):
                out[nm] = st.value
        elif isinstance(st, ast.Assign) and len(st.targets) == 1 and isinstance(st.targets[0], (ast.Tuple, ast.List)) \
                and all(isinstance(e, ast.Name) for e in st.targets[0].elts):
            # A, B, C = range(3)  /  A, B = 0, 1
            names = [e.id for e in st.targets[0].elts]
            vals = None
            v = st.value
            if isinstance(v, ast.Call) and isinstance(v.func, ast.Name) and v.func.id == "range" and not v.keywords \
                    and all(isinstance(a, ast.Constant) and type(a.value) is int for a in v.args) and 1 <= len(v.args) <= 3:
                vals = [ast.Constant(i) for i in range(*[a.value for a in v.args])]
            elif isinstance(v, (ast.Tuple, ast.List)) and all(_immutable(e) for e in v.elts):
                vals = list(v.elts)
            for nm in names:
                count[nm] = count.get(nm, 0) + 1
            if vals is not None and len(vals) == len(names):
                for nm, val in zip(names, vals):
                    if nm not in known:
                        out[nm] = val
    for st in ast.walk(mod.tree):
        if isinstance(st, ast.Global):
            for nm in st.names:
                out.pop(nm, None)
    return {k: v for k, v in out.items() if count.get(k) == 1}


class _Scalars(ast.NodeTransformer):
    def __init__(self, scalars):
        self.scalars = scalars
        self.changed = False

    def visit_Name(self, node):
        if isinstance(node.ctx, ast.Load) and node.id in self.scalars:
            self.changed = True
            return ast.copy_location(copy.deepcopy(self.scalars[node.id]), node)
        return node


def new_tables(mod):
    """{name or 'Class.name': value node} for literal tables bound once at module / class level that today's tree does not have;
    plus {row type name: [field names]} for namedtuple definitions."""
    known = set(KNOWN_GLOBALS.get(mod.rel, ()))
    if mod.rel not in KNOWN_GLOBALS:
        return {}, {}
    tables, rows, count = {}, {}, {}

    def visit(body, prefix):
        for st in body:
            if isinstance(st, ast.Assign) and len(st.targets) == 1 and isinstance(st.targets[0], ast.Name):
                nm = prefix + st.targets[0].id
                count[nm] = count.get(nm, 0) + 1
                v = st.value
                if nm in known:
                    continue
                if isinstance(v, (ast.Tuple, ast.List)) and 0 < len(v.elts) <= MAX_ROWS and all(_literal(e) for e in v.elts):
                    tables[nm] = v
                elif isinstance(v, ast.Dict) and 0 < len(v.keys) <= MAX_ROWS and all(isinstance(k, ast.Constant) for k in v.keys):
                    tables[nm] = v
                elif not prefix and isinstance(v, ast.Call) and isinstance(v.func, ast.Name) and v.func.id in mod.funcs:
                    # a table computed at import time by a function of this module from literals only (sa/miniinterp.py)
                    from .miniinterp import evaluate_call
                    lit = evaluate_call(mod.tree, v)
                    if isinstance(lit, (ast.Tuple, ast.List)) and 0 < len(lit.elts) <= MAX_ROWS and all(_literal(e) for e in lit.elts):
                        tables[nm] = lit
                    elif isinstance(lit, ast.Dict) and 0 < len(lit.keys) <= MAX_ROWS and all(isinstance(k, ast.Constant) for k in lit.keys):
                        tables[nm] = lit
                elif isinstance(v, ast.Call) and isinstance(v.func, (ast.Name, ast.Attribute)) and \
                        (v.func.id if isinstance(v.func, ast.Name) else v.func.attr) == "namedtuple" and len(v.args) == 2:
                    f = v.args[1]
                    if isinstance(f, ast.Constant) and isinstance(f.value, str):
                        rows[nm] = f.value.replace(",", " ").split()
                    elif isinstance(f, (ast.Tuple, ast.List)) and all(isinstance(e, ast.Constant) for e in f.elts):
                        rows[nm] = [e.value for e in f.elts]
            elif isinstance(st, ast.ClassDef) and not prefix:
                visit(st.body, st.name + ".")
    visit(mod.tree.body, "")
    tables = {k: v for k, v in tables.items() if count.get(k) == 1}
    return tables, rows


def _folded(node):
    node._folded = True
    return node


class _Pick(ast.NodeTransformer):
    """Replace every folded conditional expression on `test` by its true / false alternative."""
    def __init__(self, test_dump, truth):
        self.test_dump, self.truth = test_dump, truth

    def visit_IfExp(self, node):
        if getattr(node, "_folded", False) and ast.dump(node.test) == self.test_dump:
            return self.visit(node.body if self.truth else node.orelse)
        self.generic_visit(node)
        return node


def _hoist(stmts):
    """A simple statement that contains a folded `A if c else B` becomes `if c: stmt[A] else: stmt[B]` - the branches the table replaced."""
    out = []
    for st in stmts:
        for fld in ("body", "orelse", "finalbody"):
            b = getattr(st, fld, None)
            if isinstance(b, list) and b and isinstance(b[0], ast.stmt):
                setattr(st, fld, _hoist(b))
        for h in getattr(st, "handlers", []) or []:
            h.body = _hoist(h.body)
        if isinstance(st, (ast.Assign, ast.AugAssign, ast.AnnAssign, ast.Expr, ast.Return)):
            cond = next((n for n in ast.walk(st) if isinstance(n, ast.IfExp) and getattr(n, "_folded", False)), None)
            if cond is not None:
                d = ast.dump(cond.test)
                t = _Pick(d, True).visit(_deepcopy_keep(st))
                f = _Pick(d, False).visit(_deepcopy_keep(st))
                new = ast.If(copy.deepcopy(cond.test), _hoist([t]), _hoist([f]))
                out.append(ast.copy_location(new, st))
                continue
        out.append(st)
    return out


def _deepcopy_keep(node):
    """deepcopy that keeps the `_folded` marks (they are plain instance attributes, copied by deepcopy)."""
    return copy.deepcopy(node)


class _Sub(ast.NodeTransformer):
    def __init__(self, mapping):
        self.mapping = mapping

    def visit_Name(self, node):
        if isinstance(node.ctx, ast.Load) and node.id in self.mapping:
            new = copy.deepcopy(self.mapping[node.id])
            new._written_in = True
            return new
        return node


def _bind(target, value, out) -> bool:
    """target <- value for a Name or a (nested) tuple of names against a literal; False when the shapes do not match."""
    if isinstance(target, ast.Name):
        out[target.id] = value
        return True
    if isinstance(target, (ast.Tuple, ast.List)) and isinstance(value, (ast.Tuple, ast.List)) and len(target.elts) == len(value.elts):
        return all(_bind(t, v, out) for t, v in zip(target.elts, value.elts))
    return False


def _stores(stmts):
    return {n.id for st in stmts for n in ast.walk(st) if isinstance(n, ast.Name) and isinstance(n.ctx, (ast.Store, ast.Del))}


def _loop_level(stmts, kinds):
    """break / continue statements that belong to this loop (not to a nested one)."""
    for st in stmts:
        if isinstance(st, kinds):
            return True
        if isinstance(st, (ast.For, ast.While, ast.AsyncFor, ast.FunctionDef, ast.ClassDef)):
            if isinstance(st, (ast.For, ast.While)) and _loop_level(st.orelse, kinds):
                return True
            continue
        for fld in ("body", "orelse", "finalbody"):
            if _loop_level(getattr(st, fld, []) or [], kinds):
                return True
        for h in getattr(st, "handlers", []) or []:
            if _loop_level(h.body, kinds):
                return True
    return False


def _strip_terminal_breaks(stmts):
    """The statements without their final `break`s when every path through them ends in one (if/else and try/except included) and no
    other break of this loop occurs before; None otherwise."""
    if not stmts or _loop_level(stmts[:-1], (ast.Break,)):
        return None
    last = stmts[-1]
    if isinstance(last, ast.Break):
        return stmts[:-1]
    if isinstance(last, ast.If) and last.orelse:
        b, o = _strip_terminal_breaks(last.body), _strip_terminal_breaks(last.orelse)
        if b is None or o is None:
            return None
        return stmts[:-1] + [ast.copy_location(ast.If(last.test, b or [ast.Pass()], o or [ast.Pass()]), last)]
    if isinstance(last, ast.Try) and not last.finalbody and not last.orelse and last.handlers:
        b = _strip_terminal_breaks(last.body)
        hs = [_strip_terminal_breaks(h.body) for h in last.handlers]
        if b is None or any(h is None for h in hs):
            return None
        new = ast.Try(b or [ast.Pass()], [ast.copy_location(ast.ExceptHandler(h.type, h.name, hb or [ast.Pass()]), h)
                                         for h, hb in zip(last.handlers, hs)], [], [])
        return stmts[:-1] + [ast.copy_location(new, last)]
    return None


def _guard_continues(body):
    """`if c: continue` followed by REST at the top of a loop body  ->  `if not c: REST`."""
    for i, st in enumerate(body):
        if isinstance(st, ast.If) and not st.orelse and len(st.body) == 1 and isinstance(st.body[0], ast.Continue):
            rest = _guard_continues(body[i + 1:])
            test = st.test
            if isinstance(test, ast.Compare) and len(test.ops) == 1 and isinstance(test.ops[0], (ast.In, ast.NotIn)):
                neg = ast.Compare(test.left, [ast.NotIn() if isinstance(test.ops[0], ast.In) else ast.In()], test.comparators)
            elif isinstance(test, ast.UnaryOp) and isinstance(test.op, ast.Not):
                neg = test.operand
            else:
                neg = ast.UnaryOp(ast.Not(), test)
            if not rest:
                return body[:i]
            return body[:i] + [ast.fix_missing_locations(ast.copy_location(ast.If(ast.copy_location(neg, test), rest, []), st))]
    return body


class Folder(ast.NodeTransformer):
    def __init__(self, tables, rows, cls):
        self.tables, self.rows, self.cls = tables, rows, cls
        self.changed = False

    # ---- which table does an expression name?
    def table_of(self, node):
        if isinstance(node, (ast.Tuple, ast.List)) and getattr(node, "_written_in", False) and 0 < len(node.elts) <= MAX_ROWS \
                and all(_literal(e) for e in node.elts):
            return node                                  # the literal a computed call was replaced by
        if isinstance(node, ast.Name) and node.id in self.tables:
            return self.tables[node.id]
        if isinstance(node, ast.Attribute) and isinstance(node.value, ast.Name) and self.cls and node.value.id in ("self", "cls", self.cls):
            return self.tables.get(f"{self.cls}.{node.attr}")
        return None

    # ---- loops
    def visit_For(self, node):
        self.generic_visit(node)
        it, enum, start = node.iter, False, 0
        if isinstance(it, ast.Call) and isinstance(it.func, ast.Name) and it.func.id == "enumerate" and it.args and len(it.args) <= 2:
            if len(it.args) == 2 or it.keywords:
                s = it.args[1] if len(it.args) == 2 else next((k.value for k in it.keywords if k.arg == "start"), None)
                if not (isinstance(s, ast.Constant) and isinstance(s.value, int)):
                    return node
                start = s.value
            it, enum = it.args[0], True
        tab = self.table_of(it)
        if tab is None or not isinstance(tab, (ast.Tuple, ast.List)):
            return node
        targets = {n.id for n in ast.walk(node.target) if isinstance(n, ast.Name)}
        if targets & _stores(node.body):
            return node
        rows = []
        for k, elt in enumerate(tab.elts):
            m = {}
            val = ast.Tuple([ast.Constant(k + start), elt], ast.Load()) if enum else elt
            if not _bind(node.target, val, m):
                return node
            rows.append(m)
        has_break = _loop_level(node.body, (ast.Break,))
        has_continue = _loop_level(node.body, (ast.Continue,))
        if has_continue:
            body = _guard_continues(node.body)
            if _loop_level(body, (ast.Continue,)):
                return node
            node.body = body
        if not has_break:
            out = []
            for m in rows:
                out.extend(_Sub(m).visit(copy.deepcopy(st)) for st in node.body)
            out.extend(node.orelse)
            self.changed = True
            return [ast.copy_location(st, node) for st in out] or [ast.copy_location(ast.Pass(), node)]
        # search loop: one `if test: ...; break`
        stripped = _strip_terminal_breaks(node.body[0].body) if len(node.body) == 1 and isinstance(node.body[0], ast.If) \
            and not node.body[0].orelse and node.body[0].body else None
        if stripped is not None:
            chain = list(node.orelse)
            for m in reversed(rows):
                br = _Sub(m).visit(copy.deepcopy(ast.copy_location(ast.If(node.body[0].test, stripped or [ast.Pass()], []), node.body[0])))
                br.orelse = chain
                chain = [br]
            self.changed = True
            return [ast.copy_location(st, node) for st in chain]
        return node

    # ---- subscripts, .get, attributes of rows, getattr
    def visit_Subscript(self, node):
        self.generic_visit(node)
        if not isinstance(node.ctx, ast.Load):
            return node
        tab = self.table_of(node.value)
        if tab is None and isinstance(node.value, (ast.Tuple, ast.List)) and all(_literal(e) for e in node.value.elts):
            tab = node.value                         # a literal that an earlier step put here: (a, b, c)[1]
        if tab is None:
            return node
        idx = node.slice
        if isinstance(tab, (ast.Tuple, ast.List)) and isinstance(idx, ast.Constant) and type(idx.value) is int and -len(tab.elts) <= idx.value < len(tab.elts):
            self.changed = True
            return ast.copy_location(copy.deepcopy(tab.elts[idx.value]), node)
        if isinstance(tab, ast.Dict):
            return self._dict_lookup(tab, idx, None, node)
        return node

    def _dict_lookup(self, tab, key, default, node):
        keys = [k.value for k in tab.keys]
        if isinstance(key, ast.Constant):
            if key.value in keys:
                self.changed = True
                return ast.copy_location(copy.deepcopy(tab.values[keys.index(key.value)]), node)
            if default is not None:
                self.changed = True
                return ast.copy_location(copy.deepcopy(default), node)
            return node
        if not all(_literal(v) for v in tab.values):
            return node
        if set(keys) == {True, False} and all(type(k) is bool for k in keys):
            self.changed = True
            return ast.copy_location(_folded(ast.IfExp(copy.deepcopy(key), copy.deepcopy(tab.values[keys.index(True)]),
                                                       copy.deepcopy(tab.values[keys.index(False)]))), node)
        if default is None:
            return node              # a missing key raises: not expressible as a conditional expression
        expr = copy.deepcopy(default)
        pairs = list(zip(tab.keys, tab.values))
        # rows equal to the default need no test of their own (D.get(k, D["H"]): "H" and anything unknown give the same row)
        pairs = [(k, v) for k, v in pairs if ast.dump(v) != ast.dump(expr)]
        for k, v in reversed(pairs):
            expr = _folded(ast.IfExp(ast.Compare(copy.deepcopy(key), [ast.Eq()], [copy.deepcopy(k)]), copy.deepcopy(v), expr))
        self.changed = True
        return ast.copy_location(expr, node)

    def visit_Call(self, node):
        self.generic_visit(node)
        f = node.func
        if isinstance(f, ast.Attribute) and f.attr == "get" and 1 <= len(node.args) <= 2 and not node.keywords:
            tab = self.table_of(f.value)
            if isinstance(tab, ast.Dict):
                default = node.args[1] if len(node.args) == 2 else ast.Constant(None)
                return self._dict_lookup(tab, node.args[0], default, node)
        if isinstance(f, ast.IfExp) and getattr(f, "_folded", False):
            # (A if c else B)(args)  ->  A(args) if c else B(args)
            self.changed = True
            a = self.visit_Call(ast.Call(f.body, copy.deepcopy(node.args), copy.deepcopy(node.keywords)))
            b = self.visit_Call(ast.Call(f.orelse, copy.deepcopy(node.args), copy.deepcopy(node.keywords)))
            return ast.copy_location(_folded(ast.IfExp(f.test, a, b)), node)
        if isinstance(f, ast.Name) and f.id == "getattr" and len(node.args) == 2 and not node.keywords and isinstance(node.args[1], ast.IfExp) \
                and getattr(node.args[1], "_folded", False):
            self.changed = True
            x = node.args[1]
            a = self.visit_Call(ast.Call(f, [node.args[0], x.body], []))
            b = self.visit_Call(ast.Call(f, [copy.deepcopy(node.args[0]), x.orelse], []))
            return ast.copy_location(_folded(ast.IfExp(x.test, a, b)), node)
        if isinstance(f, ast.Name) and f.id == "getattr" and len(node.args) == 2 and not node.keywords and isinstance(node.args[1], ast.Constant) \
                and isinstance(node.args[1].value, str) and node.args[1].value.isidentifier():
            self.changed = True
            return ast.copy_location(ast.Attribute(node.args[0], node.args[1].value, ast.Load()), node)
        return node

    def visit_Compare(self, node):
        self.generic_visit(node)
        # <constant written in> is None / is not None
        if len(node.ops) == 1 and isinstance(node.ops[0], (ast.Is, ast.IsNot)) and isinstance(node.left, ast.Constant) \
                and isinstance(node.comparators[0], ast.Constant) and node.comparators[0].value is None and getattr(node.left, "_written_in", False):
            self.changed = True
            val = (node.left.value is None) == isinstance(node.ops[0], ast.Is)
            return ast.copy_location(ast.Constant(val), node)
        return node

    def visit_BoolOp(self, node):
        self.generic_visit(node)
        vals = []
        for v in node.values:
            if isinstance(v, ast.Constant) and type(v.value) is bool:
                if isinstance(node.op, ast.Or) and v.value or isinstance(node.op, ast.And) and not v.value:
                    # decided by this operand only if nothing before it can have side effects: keep what came first
                    if not vals:
                        self.changed = True
                        return ast.copy_location(ast.Constant(v.value), node)
                    vals.append(v)
                else:
                    self.changed = True
                    continue                 # neutral element
            else:
                vals.append(v)
        if not vals:
            return ast.copy_location(ast.Constant(isinstance(node.op, ast.And)), node)
        if len(vals) == 1:
            return vals[0]
        node.values = vals
        return node

    def visit_If(self, node):
        self.generic_visit(node)
        if isinstance(node.test, ast.Constant) and type(node.test.value) is bool:
            self.changed = True
            return (node.body if node.test.value else node.orelse) or [ast.copy_location(ast.Pass(), node)]
        return node

    def _comp(self, node):
        """[f(n) for n in ("a", "b")] over a literal written in by an earlier step is the list of its elements."""
        self.generic_visit(node)
        if len(node.generators) == 1 and not node.generators[0].ifs and isinstance(node.generators[0].target, ast.Name) \
                and isinstance(node.generators[0].iter, (ast.Tuple, ast.List)) and len(node.generators[0].iter.elts) <= MAX_ROWS \
                and all(_literal(e) for e in node.generators[0].iter.elts) and getattr(node.generators[0].iter, "_written_in", False):
            name = node.generators[0].target.id
            elts = [self.visit(_Sub({name: e}).visit(copy.deepcopy(node.elt))) for e in node.generators[0].iter.elts]
            self.changed = True
            return ast.copy_location(ast.List(elts, ast.Load()), node)
        # (f(row) for a, b in TABLE) over a table this tree introduced: one element per row, the row's fields written in
        if len(node.generators) == 1 and not node.generators[0].ifs and not node.generators[0].is_async:
            tab = self.table_of(node.generators[0].iter)
            if tab is not None and isinstance(tab, (ast.Tuple, ast.List)):
                elts = []
                for row in tab.elts:
                    m = {}
                    if not _bind(node.generators[0].target, row, m):
                        return node
                    elts.append(self.visit(_Sub(m).visit(copy.deepcopy(node.elt))))
                self.changed = True
                return ast.copy_location(ast.List(elts, ast.Load()), node)
        return node

    visit_ListComp = _comp
    visit_GeneratorExp = _comp

    def visit_Attribute(self, node):
        self.generic_visit(node)
        v = node.value
        if isinstance(node.ctx, ast.Load) and isinstance(v, ast.Call) and isinstance(v.func, ast.Name) and v.func.id == "slice" and not v.keywords \
                and node.attr in ("start", "stop", "step") and 1 <= len(v.args) <= 3 and getattr(v, "_written_in", False):
            # slice(a, b).stop of a row written in
            args = [ast.Constant(None), v.args[0], ast.Constant(None)] if len(v.args) == 1 else list(v.args) + [ast.Constant(None)] * (3 - len(v.args))
            new = copy.deepcopy(args[("start", "stop", "step").index(node.attr)])
            new._written_in = True
            self.changed = True
            return ast.copy_location(new, node)
        if isinstance(node.ctx, ast.Load) and isinstance(v, ast.Call) and isinstance(v.func, ast.Name) and v.func.id in self.rows and not v.keywords:
            fields = self.rows[v.func.id]
            if node.attr in fields and fields.index(node.attr) < len(v.args):
                self.changed = True
                return ast.copy_location(copy.deepcopy(v.args[fields.index(node.attr)]), node)
        if isinstance(node.ctx, ast.Load) and isinstance(v, ast.IfExp):
            # (A if c else B).field  ->  A.field if c else B.field   (so that rows of a two-way table are read field by field)
            a = self.visit_Attribute(ast.Attribute(v.body, node.attr, ast.Load()))
            b = self.visit_Attribute(ast.Attribute(v.orelse, node.attr, ast.Load()))
            if not (isinstance(a, ast.Attribute) and a.value is v.body):
                self.changed = True
                return ast.copy_location(_folded(ast.IfExp(v.test, a, b)), node)
        return node


class _Propagate(ast.NodeTransformer):
    """`row = <IfExp of literal rows>` bound once and only read: the reads see the expression (so that `.field` can be resolved)."""
    def __init__(self, fn):
        self.bind, stores = {}, {}
        for n in ast.walk(fn):
            if isinstance(n, ast.Name) and isinstance(n.ctx, ast.Store):
                stores[n.id] = stores.get(n.id, 0) + 1
        # names that are taken apart where they are read (row.field, row[k], row(...)): only those need the expression at the reading site
        rows_read = set()
        for n in ast.walk(fn):
            inner = n.value if isinstance(n, (ast.Attribute, ast.Subscript)) else n.func if isinstance(n, ast.Call) else None
            if isinstance(inner, ast.Name):
                rows_read.add(inner.id)
            if isinstance(n, ast.Call) and isinstance(n.func, ast.Name) and n.func.id == "getattr" and len(n.args) == 2 and isinstance(n.args[1], ast.Name):
                rows_read.add(n.args[1].id)
        for n in ast.walk(fn):
            if isinstance(n, ast.Assign) and len(n.targets) == 1 and isinstance(n.targets[0], ast.Name) and stores.get(n.targets[0].id) == 1 \
                    and n.targets[0].id in rows_read \
                    and isinstance(n.value, ast.IfExp) and getattr(n.value, "_folded", False) and _literal(n.value.body) and _literal(n.value.orelse) \
                    and not getattr(n, "_propagated", False):
                self.bind[n.targets[0].id] = n.value
                n._propagated = True

    def visit_Name(self, node):
        if isinstance(node.ctx, ast.Load) and node.id in self.bind:
            return copy.deepcopy(self.bind[node.id])
        return node


def _search_with_tail(stmts, folder):
    """for <targets> in TABLE: if <test>: break        (nothing else in the loop)
       REST                                            (reads the targets: the row found, or the last row)
    ->  if test[row 0]: REST[row 0]  elif test[row 1]: REST[row 1] ... else: REST[last row]
    The rest of the block is repeated per row with the row's literals written in - the branches the table replaced."""
    for i, st in enumerate(stmts):
        for fld in ("body", "orelse", "finalbody"):
            b = getattr(st, fld, None)
            if isinstance(b, list) and b and isinstance(b[0], ast.stmt):
                setattr(st, fld, _search_with_tail(b, folder))
        if not (isinstance(st, ast.For) and not st.orelse and len(st.body) == 1 and isinstance(st.body[0], ast.If) and not st.body[0].orelse
                and len(st.body[0].body) == 1 and isinstance(st.body[0].body[0], ast.Break)):
            continue
        tab = folder.table_of(st.iter)
        if tab is None or not isinstance(tab, (ast.Tuple, ast.List)):
            continue
        rest = stmts[i + 1:]
        targets = {n.id for n in ast.walk(st.target) if isinstance(n, ast.Name)}
        if targets & _stores(rest) or not rest or len(rest) > 40:
            continue
        rows = []
        for elt in tab.elts:
            m = {}
            if not _bind(st.target, elt, m):
                rows = None
                break
            rows.append(m)
        if not rows:
            continue
        chain = [_Sub(rows[-1]).visit(copy.deepcopy(x)) for x in rest]          # no break: the targets keep the last row
        for m in reversed(rows):
            test = _Sub(m).visit(copy.deepcopy(st.body[0].test))
            br = ast.If(test, [_Sub(m).visit(copy.deepcopy(x)) for x in rest], chain)
            chain = [ast.copy_location(br, st)]
        folder.changed = True
        return stmts[:i] + chain
    return stmts


class _Computed(ast.NodeTransformer):
    """helper(TABLE) for a helper today's tree does not have, a function of literals only: the literal it returns (sa/miniinterp.py)."""
    def __init__(self, mod):
        from .inline import KNOWN
        self.mod = mod
        self.known = set(KNOWN.get(mod.rel, ())) if mod.rel in KNOWN else None
        self.changed = False

    def visit_Call(self, node):
        self.generic_visit(node)
        if self.known is None or not isinstance(node.func, ast.Name) or node.func.id not in self.mod.funcs or node.func.id in self.known:
            return node
        from .miniinterp import evaluate_call
        lit = evaluate_call(self.mod.tree, node)
        if lit is None or not isinstance(lit, (ast.Tuple, ast.List, ast.Dict)):
            return node
        lit._written_in = True
        if isinstance(lit, (ast.Tuple, ast.List)):
            lit.elts and all(True for _ in lit.elts)
        self.changed = True
        return ast.copy_location(lit, node)


def _local_tables(fn):
    """{name: literal} for locals bound once (at the top level of the body) to a literal a computed call was replaced by, and only read."""
    stores = {}
    for n in ast.walk(fn):
        if isinstance(n, ast.Name) and isinstance(n.ctx, (ast.Store, ast.Del)):
            stores[n.id] = stores.get(n.id, 0) + 1
    out = {}
    for st in fn.body:
        if isinstance(st, ast.Assign) and len(st.targets) == 1 and isinstance(st.targets[0], ast.Name) and stores.get(st.targets[0].id) == 1 \
                and getattr(st.value, "_written_in", False) and isinstance(st.value, (ast.Tuple, ast.List)) \
                and 0 < len(st.value.elts) <= MAX_ROWS and all(_literal(e) for e in st.value.elts):
            out[st.targets[0].id] = st.value
    return out


def fold_tables(mod, qual, fn):
    """fn with the tables a refactoring introduced read back into it (a copy; fn itself when nothing applies)."""
    tables, rows = new_tables(mod)
    computed = False
    if any(isinstance(n, ast.Call) and isinstance(n.func, ast.Name) and n.func.id in mod.funcs for n in ast.walk(fn)):
        comp = _Computed(mod)
        if comp.known is not None and any(isinstance(n, ast.Call) and isinstance(n.func, ast.Name) and n.func.id in mod.funcs
                                          and n.func.id not in comp.known for n in ast.walk(fn)):
            work0 = comp.visit(copy.deepcopy(fn))
            if comp.changed:
                computed = True
                fn = ast.fix_missing_locations(work0)
                local = _local_tables(fn)
                if local:
                    tables = {**tables, **local}
    local = {n.id for n in ast.walk(fn) if isinstance(n, ast.Name) and isinstance(n.ctx, (ast.Store, ast.Del))} | \
        {a.arg for a in ast.walk(fn) if isinstance(a, ast.arg)}
    scalars = {k: v for k, v in new_scalars(mod).items() if k not in local}
    used = {n.id for n in ast.walk(fn) if isinstance(n, ast.Name)}
    scalars = {k: v for k, v in scalars.items() if k in used}
    if not tables and not rows and not scalars and not computed:
        return fn, False
    cls = qual.rsplit(".", 1)[0] if "." in qual else None
    names = {n.id for n in ast.walk(fn) if isinstance(n, ast.Name)} | {n.attr for n in ast.walk(fn) if isinstance(n, ast.Attribute)}
    if not ({k.split(".")[-1] for k in tables} | set(rows)) & names and not computed:
        if not scalars:
            return fn, False
        work = _Scalars(scalars).visit(copy.deepcopy(fn))
        ast.fix_missing_locations(work)
        return work, True
    work = copy.deepcopy(fn)
    any_change = False
    for _ in range(6):
        f = Folder(tables, rows, cls)
        work.body = _search_with_tail(work.body, f)
        work = f.visit(work)
        any_change = any_change or f.changed
        pr = _Propagate(work) if any_change else None
        if pr is not None and pr.bind:
            work = pr.visit(work)
        elif not f.changed:
            break
    if scalars:
        sc = _Scalars(scalars)
        work = sc.visit(work)
        any_change = any_change or sc.changed
    if not any_change:
        return fn, computed
    work.body = _hoist(work.body)
    ast.fix_missing_locations(work)
    return work, True
