"""Evaluation of a symbolic term on one concrete table row.

Some accessors of the repository are pure functions of a few fields of a shipped table row (SpaceGroup.latt is a
function of the row's centring).  To decide a table rule for every row, the accessor's *symbolic* return value (from the
evaluator in symex.py) is evaluated here with the fields of each row substituted.  Nothing of the repository is run: the
interpreter below knows literals, dictionaries, subscripts, slices, dict.get, abs/len/int/str and comparisons, and raises
NotConcrete on anything else (the caller turns that into an analysis error, never into a verdict).
"""
from __future__ import annotations

from fractions import Fraction

from .poly import P
from .symex import call_name


class NotConcrete(Exception):
    pass


def concrete(term: P, env: dict):
    """env: {term key: python value}."""
    k = term.key()
    if k in env:
        return env[k]
    if term.is_const():
        v = term.const_value()
        return int(v) if isinstance(v, Fraction) and v.denominator == 1 else v
    a = term.as_atom()
    if a is None:
        if not term.is_poly():
            num = concrete(P(term.n), env)
            den = concrete(P(term.d), env)
            return Fraction(num) / Fraction(den)
        total = 0
        for mono, coef in term.n.items():
            val = coef
            for atom, power in mono:
                val = val * concrete(P.atom(atom), env) ** power
            total = total + val
        if isinstance(total, Fraction) and total.denominator == 1:
            total = int(total)
        return total
    tag = a[0]
    if tag == "str":
        return a[1]
    if tag == "const":
        return a[1]
    if tag == "name":
        if a[1] in ("None", "True", "False"):
            return {"None": None, "True": True, "False": False}[a[1]]
        raise NotConcrete(f"free name {a[1]}")
    if tag == "obj":
        return concrete(a[3], env)
    if tag == "dict":
        return {concrete(kk, env): concrete(vv, env) for kk, vv in a[1]}
    if tag in ("tuple", "list"):
        return [concrete(x, env) for x in a[1]]
    if tag == "sub":
        base = concrete(a[1], env)
        if len(a[2]) != 1:
            raise NotConcrete("multi-index")
        ia = a[2][0].as_atom()
        if ia and ia[0] == "slice":
            lo, hi, st = (None if x.key() == "None" else concrete(x, env) for x in ia[1:4])
            return base[slice(lo, hi, st)]
        try:
            return base[concrete(a[2][0], env)]
        except (KeyError, IndexError) as e:
            raise NotConcrete(f"lookup fails: {e!r}")
    if tag == "ite":
        return concrete(a[2], env) if concrete(a[1], env) else concrete(a[3], env)
    if tag in ("eq", "ne", "lt", "le", "in", "notin", "is", "isnot"):
        x, y = concrete(a[1], env), concrete(a[2], env)
        return {"eq": x == y, "ne": x != y, "lt": x < y, "le": x <= y, "in": x in y, "notin": x not in y,
                "is": x is y, "isnot": x is not y}[tag]
    if tag == "not":
        return not concrete(a[1], env)
    if tag == "call":
        f = a[1].as_atom() if isinstance(a[1], P) else None
        args = [concrete(x, env) for x in a[2]]
        if f and f[0] == "attr" and f[2] in ("get", "upper", "lower", "strip", "startswith", "endswith"):
            recv = concrete(f[1], env)
            return getattr(recv, f[2])(*args)
        cn = call_name(a)
        if cn in ("abs", "len", "int", "str", "min", "max"):
            return {"abs": abs, "len": len, "int": int, "str": str, "min": min, "max": max}[cn](*args)
        raise NotConcrete(f"call {cn or a[1]}")
    raise NotConcrete(f"{tag} term {k[:60]}")
