"""Source-level normal forms applied when a module is loaded (so that no rule depends on which of two equivalent
spellings the source uses).

* ``"{:3} {: 20.12f}".format(a, b)``  ->  ``f"{a:3} {b: 20.12f}"`` — a constant template with auto-numbered or indexed
  positional fields and no keyword / starred arguments is the same formatting as the f-string; the layout rules
  (sa/layout.py) read f-strings.  Templates with named fields, nested specs or non-constant templates are left alone.
Node positions are kept (the new node takes the place of the call).
"""
import ast
import string


class FormatToFString(ast.NodeTransformer):
    def visit_Call(self, node):
        self.generic_visit(node)
        if not (isinstance(node.func, ast.Attribute) and node.func.attr == "format" and isinstance(node.func.value, ast.Constant)
                and isinstance(node.func.value.value, str) and not node.keywords and not any(isinstance(a, ast.Starred) for a in node.args)):
            return node
        vals, auto, manual = [], 0, False
        try:
            for lit, field, spec, conv in string.Formatter().parse(node.func.value.value):
                if lit:
                    vals.append(ast.Constant(lit))
                if field is None:
                    continue
                if field == "":
                    idx, auto = auto, auto + 1
                elif field.isdigit():
                    idx, manual = int(field), True
                else:
                    return node
                if idx >= len(node.args) or (spec and "{" in spec) or (manual and auto):
                    return node
                fs = ast.JoinedStr([ast.Constant(spec)]) if spec else None
                vals.append(ast.FormattedValue(node.args[idx], {None: -1, "s": 115, "r": 114, "a": 97}[conv], fs))
        except Exception:   # noqa: BLE001
            return node
        new = ast.JoinedStr(vals)
        ast.copy_location(new, node)
        ast.fix_missing_locations(new)
        return new


def normalise(tree):
    return FormatToFString().visit(tree)
