"""Source-level normal forms applied when a module is loaded (so that no rule depends on which of two equivalent
spellings the source uses).

* ``"{:3} {: 20.12f}".format(a, b)``  ->  ``f"{a:3} {b: 20.12f}"`` — a constant template with auto-numbered or indexed
  positional fields and no keyword / starred arguments is the same formatting as the f-string; the layout rules
  (sa/layout.py) read f-strings.  Templates with named fields, nested specs or non-constant templates are left alone.
* ``format(x, "20d")`` -> ``f"{x:20d}"``; ``repr(e).rjust(20)`` / ``str(e).ljust(8)`` / ``.center(n)`` with a constant width and the default
  fill -> ``f"{e!r:>20}"`` / ``f"{e!s:<8}"`` / ``f"{e!s:^n}"`` (the builtin spellings of the same padding).
Node positions are kept (the new node takes the place of the call).
"""
import ast
import string


class FormatToFString(ast.NodeTransformer):
    def visit_Call(self, node):
        self.generic_visit(node)
        if not (isinstance(node.func, ast.Attribute) and node.func.attr == "format" and isinstance(node.func.value, ast.Constant)
                and isinstance(node.func.value.value, str) and not node.keywords and not any(isinstance(a, ast.Starred) for a in node.args)):
            return node
        vals, auto, manual = [], 0, False
        try:
            for lit, field, spec, conv in string.Formatter().parse(node.func.value.value):
                if lit:
                    vals.append(ast.Constant(lit))
                if field is None:
                    continue
                if field == "":
                    idx, auto = auto, auto + 1
                elif field.isdigit():
                    idx, manual = int(field), True
                else:
                    return node
                if idx >= len(node.args) or (spec and "{" in spec) or (manual and auto):
                    return node
                fs = ast.JoinedStr([ast.Constant(spec)]) if spec else None
                vals.append(ast.FormattedValue(node.args[idx], {None: -1, "s": 115, "r": 114, "a": 97}[conv], fs))
        except Exception:   # noqa: BLE001
            return node
        new = ast.JoinedStr(vals)
        ast.copy_location(new, node)
        ast.fix_missing_locations(new)
        return new


class BuiltinFormat(ast.NodeTransformer):
    _ALIGN = {"rjust": ">", "ljust": "<", "center": "^"}

    def visit_Call(self, node):
        self.generic_visit(node)
        f = node.func
        new = None
        if isinstance(f, ast.Name) and f.id == "format" and len(node.args) == 2 and not node.keywords \
                and isinstance(node.args[1], ast.Constant) and isinstance(node.args[1].value, str) and "{" not in node.args[1].value:
            spec = node.args[1].value
            new = ast.JoinedStr([ast.FormattedValue(node.args[0], -1, ast.JoinedStr([ast.Constant(spec)]) if spec else None)])
        elif isinstance(f, ast.Attribute) and f.attr in self._ALIGN and len(node.args) == 1 and not node.keywords \
                and isinstance(node.args[0], ast.Constant) and type(node.args[0].value) is int and node.args[0].value >= 0 \
                and isinstance(f.value, ast.Call) and isinstance(f.value.func, ast.Name) and f.value.func.id in ("repr", "str") \
                and len(f.value.args) == 1 and not f.value.keywords:
            conv = 114 if f.value.func.id == "repr" else 115
            new = ast.JoinedStr([ast.FormattedValue(f.value.args[0], conv,
                                                    ast.JoinedStr([ast.Constant(f"{self._ALIGN[f.attr]}{node.args[0].value}")]))])
        if new is None:
            return node
        ast.copy_location(new, node)
        ast.fix_missing_locations(new)
        return new


class _BoundFormat(ast.NodeTransformer):
    """fmt = "{:12.8f} {:12.8f}".format ; fmt(x, y)   ->   "{:12.8f} {:12.8f}".format(x, y)   (aliases bound once in a function)."""
    def visit_FunctionDef(self, node):
        self.generic_visit(node)
        alias, count = {}, {}
        for n in ast.walk(node):
            if isinstance(n, ast.Name) and isinstance(n.ctx, ast.Store):
                count[n.id] = count.get(n.id, 0) + 1
            if isinstance(n, ast.Assign) and len(n.targets) == 1 and isinstance(n.targets[0], ast.Name) and isinstance(n.value, ast.Attribute) \
                    and n.value.attr == "format" and isinstance(n.value.value, ast.Constant) and isinstance(n.value.value.value, str):
                alias[n.targets[0].id] = n.value
        alias = {k: v for k, v in alias.items() if count.get(k) == 1}
        if not alias:
            return node

        class R(ast.NodeTransformer):
            def visit_Call(self, c):
                self.generic_visit(c)
                if isinstance(c.func, ast.Name) and c.func.id in alias:
                    import copy
                    return ast.copy_location(ast.Call(copy.deepcopy(alias[c.func.id]), c.args, c.keywords), c)
                return c
        return R().visit(node)


class DictMembership(ast.NodeTransformer):
    """`"name" in self.__dict__` / `"name" in vars(self)`  ->  hasattr(self, "name")   (instance attributes: the same test for the plain
    attributes the memo rules are about);  the statement `self.__dict__.pop(name, None)`  ->  `if hasattr(self, name): delattr(self, name)`."""
    @staticmethod
    def _owner(node):
        if isinstance(node, ast.Attribute) and node.attr == "__dict__" and isinstance(node.value, ast.Name):
            return node.value
        if isinstance(node, ast.Call) and isinstance(node.func, ast.Name) and node.func.id == "vars" and len(node.args) == 1 \
                and isinstance(node.args[0], ast.Name) and not node.keywords:
            return node.args[0]
        return None

    def visit_Compare(self, node):
        self.generic_visit(node)
        if len(node.ops) == 1 and isinstance(node.ops[0], (ast.In, ast.NotIn)) and self._owner(node.comparators[0]) is not None \
                and (isinstance(node.left, ast.Name) or (isinstance(node.left, ast.Constant) and isinstance(node.left.value, str))):
            call = ast.Call(ast.Name("hasattr", ast.Load()), [self._owner(node.comparators[0]), node.left], [])
            new = call if isinstance(node.ops[0], ast.In) else ast.UnaryOp(ast.Not(), call)
            return ast.fix_missing_locations(ast.copy_location(new, node))
        return node

    def visit_Expr(self, node):
        self.generic_visit(node)
        c = node.value
        if isinstance(c, ast.Call) and isinstance(c.func, ast.Attribute) and c.func.attr == "pop" and self._owner(c.func.value) is not None \
                and len(c.args) == 2 and isinstance(c.args[1], ast.Constant) and c.args[1].value is None and not c.keywords \
                and (isinstance(c.args[0], ast.Name) or isinstance(c.args[0], ast.Constant)):
            own = self._owner(c.func.value)
            import copy
            new = ast.If(ast.Call(ast.Name("hasattr", ast.Load()), [own, c.args[0]], []),
                         [ast.Expr(ast.Call(ast.Name("delattr", ast.Load()), [copy.deepcopy(own), copy.deepcopy(c.args[0])], []))], [])
            return ast.fix_missing_locations(ast.copy_location(new, node))
        return node


def normalise(tree):
    tree = DictMembership().visit(tree)
    tree = _BoundFormat().visit(tree)
    tree = FormatToFString().visit(tree)
    return BuiltinFormat().visit(tree)
