"""Source-level normal forms applied when a module is loaded (so that no rule depends on which of two equivalent
spellings the source uses).

* ``"{:3} {: 20.12f}".format(a, b)``  ->  ``f"{a:3} {b: 20.12f}"`` — a constant template with auto-numbered or indexed
  positional fields and no keyword / starred arguments is the same formatting as the f-string; the layout rules
  (sa/layout.py) read f-strings.  Templates with named fields, nested specs or non-constant templates are left alone.
* ``format(x, "20d")`` -> ``f"{x:20d}"``; ``repr(e).rjust(20)`` / ``str(e).ljust(8)`` / ``.center(n)`` with a constant width and the default
  fill -> ``f"{e!r:>20}"`` / ``f"{e!s:<8}"`` / ``f"{e!s:^n}"`` (the builtin spellings of the same padding).
Node positions are kept (the new node takes the place of the call).
"""
import ast
import string


class FormatToFString(ast.NodeTransformer):
    def visit_Call(self, node):
        self.generic_visit(node)
        if not (isinstance(node.func, ast.Attribute) and node.func.attr == "format" and isinstance(node.func.value, ast.Constant)
                and isinstance(node.func.value.value, str) and not node.keywords and not any(isinstance(a, ast.Starred) for a in node.args)):
            return node
        vals, auto, manual = [], 0, False
        try:
            for lit, field, spec, conv in string.Formatter().parse(node.func.value.value):
                if lit:
                    vals.append(ast.Constant(lit))
                if field is None:
                    continue
                if field == "":
                    idx, auto = auto, auto + 1
                elif field.isdigit():
                    idx, manual = int(field), True
                else:
                    return node
                if idx >= len(node.args) or (spec and "{" in spec) or (manual and auto):
                    return node
                fs = ast.JoinedStr([ast.Constant(spec)]) if spec else None
                vals.append(ast.FormattedValue(node.args[idx], {None: -1, "s": 115, "r": 114, "a": 97}[conv], fs))
        except Exception:   # noqa: BLE001
            return node
        new = ast.JoinedStr(vals)
        ast.copy_location(new, node)
        ast.fix_missing_locations(new)
        return new


class BuiltinFormat(ast.NodeTransformer):
    _ALIGN = {"rjust": ">", "ljust": "<", "center": "^"}

    def visit_Call(self, node):
        self.generic_visit(node)
        f = node.func
        new = None
        if isinstance(f, ast.Name) and f.id == "format" and len(node.args) == 2 and not node.keywords \
                and isinstance(node.args[1], ast.Constant) and isinstance(node.args[1].value, str) and "{" not in node.args[1].value:
            spec = node.args[1].value
            new = ast.JoinedStr([ast.FormattedValue(node.args[0], -1, ast.JoinedStr([ast.Constant(spec)]) if spec else None)])
        elif isinstance(f, ast.Attribute) and f.attr in self._ALIGN and len(node.args) == 1 and not node.keywords \
                and isinstance(node.args[0], ast.Constant) and type(node.args[0].value) is int and node.args[0].value >= 0 \
                and isinstance(f.value, ast.Call) and isinstance(f.value.func, ast.Name) and f.value.func.id in ("repr", "str") \
                and len(f.value.args) == 1 and not f.value.keywords:
            conv = 114 if f.value.func.id == "repr" else 115
            new = ast.JoinedStr([ast.FormattedValue(f.value.args[0], conv,
                                                    ast.JoinedStr([ast.Constant(f"{self._ALIGN[f.attr]}{node.args[0].value}")]))])
        if new is None:
            return node
        ast.copy_location(new, node)
        ast.fix_missing_locations(new)
        return new


class _BoundFormat(ast.NodeTransformer):
    """fmt = "{:12.8f} {:12.8f}".format ; fmt(x, y)   ->   "{:12.8f} {:12.8f}".format(x, y)   (aliases bound once in a function)."""
    def visit_FunctionDef(self, node):
        self.generic_visit(node)
        alias, count = {}, {}
        for n in ast.walk(node):
            if isinstance(n, ast.Name) and isinstance(n.ctx, ast.Store):
                count[n.id] = count.get(n.id, 0) + 1
            if isinstance(n, ast.Assign) and len(n.targets) == 1 and isinstance(n.targets[0], ast.Name) and isinstance(n.value, ast.Attribute) \
                    and n.value.attr == "format" and isinstance(n.value.value, ast.Constant) and isinstance(n.value.value.value, str):
                alias[n.targets[0].id] = n.value
        alias = {k: v for k, v in alias.items() if count.get(k) == 1}
        if not alias:
            return node

        class R(ast.NodeTransformer):
            def visit_Call(self, c):
                self.generic_visit(c)
                if isinstance(c.func, ast.Name) and c.func.id in alias:
                    import copy
                    return ast.copy_location(ast.Call(copy.deepcopy(alias[c.func.id]), c.args, c.keywords), c)
                return c
        return R().visit(node)


class DictMembership(ast.NodeTransformer):
    """`"name" in self.__dict__` / `"name" in vars(self)`  ->  hasattr(self, "name")   (instance attributes: the same test for the plain
    attributes the memo rules are about);  the statement `self.__dict__.pop(name, None)`  ->  `if hasattr(self, name): delattr(self, name)`."""
    @staticmethod
    def _owner(node):
        if isinstance(node, ast.Attribute) and node.attr == "__dict__" and isinstance(node.value, ast.Name):
            return node.value
        if isinstance(node, ast.Call) and isinstance(node.func, ast.Name) and node.func.id == "vars" and len(node.args) == 1 \
                and isinstance(node.args[0], ast.Name) and not node.keywords:
            return node.args[0]
        return None

    def visit_Compare(self, node):
        self.generic_visit(node)
        if len(node.ops) == 1 and isinstance(node.ops[0], (ast.In, ast.NotIn)) and self._owner(node.comparators[0]) is not None \
                and (isinstance(node.left, ast.Name) or (isinstance(node.left, ast.Constant) and isinstance(node.left.value, str))):
            call = ast.Call(ast.Name("hasattr", ast.Load()), [self._owner(node.comparators[0]), node.left], [])
            new = call if isinstance(node.ops[0], ast.In) else ast.UnaryOp(ast.Not(), call)
            return ast.fix_missing_locations(ast.copy_location(new, node))
        return node

    def visit_Expr(self, node):
        self.generic_visit(node)
        c = node.value
        if isinstance(c, ast.Call) and isinstance(c.func, ast.Attribute) and c.func.attr == "pop" and self._owner(c.func.value) is not None \
                and len(c.args) == 2 and isinstance(c.args[1], ast.Constant) and c.args[1].value is None and not c.keywords \
                and (isinstance(c.args[0], ast.Name) or isinstance(c.args[0], ast.Constant)):
            own = self._owner(c.func.value)
            import copy
            new = ast.If(ast.Call(ast.Name("hasattr", ast.Load()), [own, c.args[0]], []),
                         [ast.Expr(ast.Call(ast.Name("delattr", ast.Load()), [copy.deepcopy(own), copy.deepcopy(c.args[0])], []))], [])
            return ast.fix_missing_locations(ast.copy_location(new, node))
        return node


class DictUpdate(ast.NodeTransformer):
    """The statement `d.update(k1=v1, k2=v2)` / `d.update({"k1": v1, "k2": v2})` on a local name  ->  `d["k1"] = v1; d["k2"] = v2`
    (the same stores in the same order; not applied when a value reads `d` itself, since update evaluates every value first)."""
    def visit_Expr(self, node):
        self.generic_visit(node)
        c = node.value
        if not (isinstance(c, ast.Call) and isinstance(c.func, ast.Attribute) and c.func.attr == "update" and isinstance(c.func.value, ast.Name)):
            return node
        d = c.func.value.id
        pairs = None
        if not c.args and c.keywords and all(k.arg is not None for k in c.keywords):
            pairs = [(ast.Constant(k.arg), k.value) for k in c.keywords]
        elif len(c.args) == 1 and not c.keywords and isinstance(c.args[0], ast.Dict) and c.args[0].keys \
                and all(isinstance(k, ast.Constant) and isinstance(k.value, str) for k in c.args[0].keys):
            pairs = list(zip(c.args[0].keys, c.args[0].values))
        if not pairs or any(isinstance(x, ast.Name) and x.id == d for _, v in pairs for x in ast.walk(v)):
            return node
        out = []
        for k, v in pairs:
            st = ast.Assign([ast.Subscript(ast.Name(d, ast.Load()), k, ast.Store())], v)
            out.append(ast.fix_missing_locations(ast.copy_location(st, node)))
        return out


class TakeWhile(ast.NodeTransformer):
    """`for x in takewhile(pred, seq): body`  ->  `for x in seq: if not pred(x): break; body`   (no else clause; a lambda predicate is
    applied by the evaluator)."""
    def visit_For(self, node):
        self.generic_visit(node)
        it = node.iter
        if isinstance(it, ast.Call) and ast.unparse(it.func) in ("takewhile", "itertools.takewhile") and len(it.args) == 2 and not it.keywords \
                and isinstance(node.target, ast.Name) and not node.orelse:
            test = ast.UnaryOp(ast.Not(), ast.Call(it.args[0], [ast.Name(node.target.id, ast.Load())], []))
            brk = ast.If(test, [ast.Break()], [])
            node.iter = it.args[1]
            node.body = [ast.copy_location(brk, node.body[0])] + node.body
            ast.fix_missing_locations(node)
        return node


class NestedCompToLoop(ast.NodeTransformer):
    min_generators = 2
    """`t = [E for a in A for b in B if c]` (two or more generators, bound to a local name)  ->
    `t = []` / `for a in A: for b in B: if c: t.append(E)`  - the nested loop it abbreviates.  Only when the comprehension's own variables
    are used nowhere else in the function (they would leak into it otherwise)."""
    def visit_FunctionDef(self, node):
        self.generic_visit(node)
        counts = {}
        for n in ast.walk(node):
            if isinstance(n, ast.Name):
                counts[n.id] = counts.get(n.id, 0) + 1
            elif isinstance(n, ast.arg):
                counts[n.arg] = counts.get(n.arg, 0) + 1

        def rewrite(stmts):
            out = []
            for st in stmts:
                for fld in ("body", "orelse", "finalbody"):
                    b = getattr(st, fld, None)
                    if isinstance(b, list) and b and isinstance(b[0], ast.stmt) and not isinstance(st, (ast.FunctionDef, ast.ClassDef, ast.AsyncFunctionDef)):
                        setattr(st, fld, rewrite(b))
                for h in getattr(st, "handlers", []) or []:
                    h.body = rewrite(h.body)
                if isinstance(st, ast.Assign) and len(st.targets) == 1 and isinstance(st.targets[0], ast.Name) and isinstance(st.value, ast.ListComp) \
                        and len(st.value.generators) >= self.min_generators and not any(g.is_async for g in st.value.generators):
                    comp = st.value
                    inner = {}
                    for n in ast.walk(comp):
                        if isinstance(n, ast.Name):
                            inner[n.id] = inner.get(n.id, 0) + 1
                    own = {n.id for g in comp.generators for n in ast.walk(g.target) if isinstance(n, ast.Name)}
                    tname = st.targets[0].id
                    if all(counts.get(v, 0) == inner.get(v, 0) for v in own) and tname not in inner:
                        body = [ast.Expr(ast.Call(ast.Attribute(ast.Name(tname, ast.Load()), "append", ast.Load()), [comp.elt], []))]
                        for g in reversed(comp.generators):
                            for c in reversed(g.ifs):
                                body = [ast.If(c, body, [])]
                            body = [ast.For(g.target, g.iter, body, [], None)]
                        new = [ast.Assign([ast.Name(tname, ast.Store())], ast.List([], ast.Load()))] + body
                        out.extend(ast.fix_missing_locations(ast.copy_location(x, st)) for x in new)
                        continue
                out.append(st)
            return out
        node.body = rewrite(node.body)
        return node


class DotToLoop(ast.NodeTransformer):
    """`t = [k *] np.dot(A[a:b], B[a:b])` (np.vdot conjugates its first operand) over one-dimensional slices is the sum it stands for:

        _dvacc = 0;  for _dvl in range(0, b - a): _dvacc += A[a + _dvl] * B[a + _dvl];  t = [k *] _dvacc

    so that rules written for the element-by-element loop read the vectorised spelling too.  `.real` / `.imag` / `.conj()` on a slice
    move to the element.  Only whole right-hand sides of that shape are rewritten."""
    def __init__(self):
        self.n = 0

    @staticmethod
    def _operand(node):
        """(base subscript, wrappers) for  X[a:b]  /  X[a:b].real  /  np.conj(X[a:b])  /  X[a:b].conj()"""
        wraps = []
        while True:
            if isinstance(node, ast.Attribute) and node.attr in ("real", "imag"):
                wraps.append(("attr", node.attr))
                node = node.value
            elif isinstance(node, ast.Call) and isinstance(node.func, ast.Attribute) and node.func.attr in ("conj", "conjugate") and not node.args \
                    and not (isinstance(node.func.value, ast.Name) and node.func.value.id in ("np", "numpy")):
                wraps.append(("conj", None))
                node = node.func.value
            elif isinstance(node, ast.Call) and isinstance(node.func, ast.Attribute) and node.func.attr in ("conj", "conjugate") and len(node.args) == 1 \
                    and isinstance(node.func.value, ast.Name) and node.func.value.id in ("np", "numpy"):
                wraps.append(("conj", None))
                node = node.args[0]
            else:
                break
        if isinstance(node, ast.Subscript) and isinstance(node.slice, ast.Slice) and node.slice.step is None and isinstance(node.value, (ast.Name, ast.Attribute)):
            return node, wraps
        return None

    def _dot(self, node):
        if isinstance(node, ast.Call) and isinstance(node.func, ast.Attribute) and isinstance(node.func.value, ast.Name) and node.func.value.id in ("np", "numpy") \
                and node.func.attr in ("dot", "vdot", "inner") and len(node.args) == 2 and not node.keywords:
            a, b = self._operand(node.args[0]), self._operand(node.args[1])
            if a and b:
                return node.func.attr, a, b
        return None

    def _rewrite(self, st, value):
        import copy
        # value: dot call, or a product with exactly one dot call factor
        factors, dot = [], None
        todo = [value]
        while todo:
            v = todo.pop()
            if isinstance(v, ast.BinOp) and isinstance(v.op, ast.Mult):
                todo.extend((v.right, v.left))
            elif self._dot(v) and dot is None:
                dot = self._dot(v)
            else:
                factors.append(v)
        if dot is None or any(self._dot(f) for f in factors) or any(isinstance(n, ast.Call) and self._dot(n) for f in factors for n in ast.walk(f)):
            return None
        kind, (sa, wa), (sb, wb) = dot
        self.n += 1
        acc, lv = f"_dvacc{self.n}", f"_dvl{self.n}"
        lo = sa.slice.lower or ast.Constant(0)
        hi = sa.slice.upper
        if hi is None:
            return None
        count = hi if (isinstance(lo, ast.Constant) and lo.value == 0) else ast.BinOp(copy.deepcopy(hi), ast.Sub(), copy.deepcopy(lo))

        def elem(sub, wraps, conj_first):
            lo_ = sub.slice.lower or ast.Constant(0)
            idx = ast.Name(lv, ast.Load()) if (isinstance(lo_, ast.Constant) and lo_.value == 0) else ast.BinOp(copy.deepcopy(lo_), ast.Add(), ast.Name(lv, ast.Load()))
            e = ast.Subscript(copy.deepcopy(sub.value), idx, ast.Load())
            for w, arg in reversed(wraps):
                e = ast.Attribute(e, arg, ast.Load()) if w == "attr" else ast.Call(ast.Attribute(ast.Name("np", ast.Load()), "conj", ast.Load()), [e], [])
            if conj_first:
                e = ast.Call(ast.Attribute(ast.Name("np", ast.Load()), "conj", ast.Load()), [e], [])
            return e
        term = ast.BinOp(elem(sa, wa, kind == "vdot"), ast.Mult(), elem(sb, wb, False))
        init = ast.Assign([ast.Name(acc, ast.Store())], ast.Constant(0.0))
        loop = ast.For(ast.Name(lv, ast.Store()), ast.Call(ast.Name("range", ast.Load()), [ast.Constant(0), count], []),
                       [ast.AugAssign(ast.Name(acc, ast.Store()), ast.Add(), term)], [])
        res = ast.Name(acc, ast.Load())
        for f in factors:
            res = ast.BinOp(f, ast.Mult(), res)
        new_st = copy.copy(st)
        new_st.value = res
        out = [init, loop, new_st]
        for o in out:
            ast.copy_location(o, st)
            ast.fix_missing_locations(o)
        return out

    def visit_Assign(self, node):
        out = self._rewrite(node, node.value)
        return out if out else node

    def visit_AugAssign(self, node):
        out = self._rewrite(node, node.value)
        return out if out else node


class _AnyCompToLoop(NestedCompToLoop):
    min_generators = 1


def _shadowed(transformer, node):
    """visit a lambda with the names it binds itself taken out of the mapping"""
    own = {a.arg for a in node.args.posonlyargs + node.args.args + node.args.kwonlyargs}
    saved = transformer.mapping
    transformer.mapping = {k: v for k, v in saved.items() if k not in own}
    node.body = transformer.visit(node.body)
    transformer.mapping = saved
    return node


class _Rename(ast.NodeTransformer):
    def __init__(self, mapping):
        self.mapping = mapping

    def visit_Lambda(self, node):
        return _shadowed(self, node)

    def visit_Name(self, node):
        if node.id in self.mapping:
            return ast.copy_location(ast.Name(self.mapping[node.id], node.ctx), node)
        return node


class _Replace(ast.NodeTransformer):
    def __init__(self, mapping):
        self.mapping = mapping

    def visit_Lambda(self, node):
        return _shadowed(self, node)

    def visit_Name(self, node):
        if isinstance(node.ctx, ast.Load) and node.id in self.mapping:
            import copy
            return ast.copy_location(copy.deepcopy(self.mapping[node.id]), node)
        return node


def _destructure(target, value, out) -> bool:
    if isinstance(target, ast.Name):
        out[target.id] = value
        return True
    if isinstance(target, (ast.Tuple, ast.List)) and isinstance(value, (ast.Tuple, ast.List)) and len(target.elts) == len(value.elts) \
            and not any(isinstance(e, ast.Starred) for e in list(target.elts) + list(value.elts)):
        return all(_destructure(t, v, out) for t, v in zip(target.elts, value.elts))
    return False


def fuse_comprehensions(fn):
    """rows = [f(l) for l in S if c]; out = [g(r) for r in rows]   ->   out = [g(f(l)) for l in S if c]   for a local list bound once and
    used only as the source of other comprehensions (a pipeline of lists written stage by stage).  Returns a copy."""
    import copy
    fn = copy.deepcopy(fn)
    for round_ in range(8):
        binds, uses = {}, {}
        parents = {}
        for n in ast.walk(fn):
            for c in ast.iter_child_nodes(n):
                parents[id(c)] = n
        for n in ast.walk(fn):
            if isinstance(n, ast.Assign) and len(n.targets) == 1 and isinstance(n.targets[0], ast.Name):
                binds.setdefault(n.targets[0].id, []).append(n)
            elif isinstance(n, ast.Name) and isinstance(n.ctx, ast.Load):
                uses.setdefault(n.id, []).append(n)
            elif isinstance(n, (ast.AugAssign, ast.AnnAssign)) and isinstance(n.target, ast.Name):
                binds.setdefault(n.target.id, []).append(None)
            elif isinstance(n, (ast.For, ast.comprehension)):
                for t in ast.walk(n.target):
                    if isinstance(t, ast.Name):
                        binds.setdefault(t.id, []).append(None)
            elif isinstance(n, ast.arg):
                binds.setdefault(n.arg, []).append(None)
        done = False
        for name, bs in binds.items():
            if len(bs) != 1 or bs[0] is None or not isinstance(bs[0].value, ast.ListComp) or len(bs[0].value.generators) != 1 \
                    or bs[0].value.generators[0].is_async:
                continue
            src = bs[0].value
            us = uses.get(name, [])
            if not us or not all(isinstance(parents.get(id(u)), ast.comprehension) and parents[id(u)].iter is u for u in us):
                continue
            ok = True
            plans = []
            for k, u in enumerate(us):
                gen = parents[id(u)]
                comp = parents.get(id(gen))
                if not isinstance(comp, (ast.ListComp, ast.GeneratorExp, ast.SetComp)) or gen is not comp.generators[0] or gen.is_async:
                    ok = False
                    break
                own = {t.id for t in ast.walk(src.generators[0].target) if isinstance(t, ast.Name)}
                ren = {v: f"{v}__f{round_}{k}" for v in own}
                g2 = _Rename(ren).visit(copy.deepcopy(src.generators[0]))
                e2 = _Rename(ren).visit(copy.deepcopy(src.elt))
                m = {}
                if not _destructure(gen.target, e2, m):
                    ok = False
                    break
                plans.append((comp, gen, g2, m))
            if not ok:
                continue
            for comp, gen, g2, m in plans:
                m = {k: v for k, v in m.items() if k != "_"}
                rep = _Replace(m)
                comp.elt = rep.visit(comp.elt)
                rest = comp.generators[1:]
                for g in rest:
                    g.iter = rep.visit(g.iter)
                    g.ifs = [rep.visit(c) for c in g.ifs]
                g2.ifs = list(g2.ifs) + [rep.visit(c) for c in gen.ifs]
                comp.generators = [g2] + rest
            # drop the stage's own assignment
            for n in ast.walk(fn):
                for fld in ("body", "orelse", "finalbody"):
                    b = getattr(n, fld, None)
                    if isinstance(b, list) and bs[0] in b:
                        b.remove(bs[0])
                        if not b:
                            b.append(ast.Pass())
            done = True
            break
        if not done:
            break
    return ast.fix_missing_locations(fn)


def _inline_lazy_sources(fn):
    """src = takewhile(p, S) bound once and used once (as the source of a loop / comprehension): written in where it is used."""
    import copy
    fn = copy.deepcopy(fn)
    binds, uses = {}, {}
    for n in ast.walk(fn):
        if isinstance(n, ast.Assign) and len(n.targets) == 1 and isinstance(n.targets[0], ast.Name):
            binds.setdefault(n.targets[0].id, []).append(n)
        elif isinstance(n, ast.Name) and isinstance(n.ctx, ast.Load):
            uses.setdefault(n.id, []).append(n)
        elif isinstance(n, ast.Name):
            binds.setdefault(n.id, []).append(None)
    m = {}
    for name, bs in binds.items():
        bs = [b for b in bs if b is not None] if len([b for b in bs if b is None]) == 1 else bs      # the Store name of the Assign itself
        if len(bs) == 1 and bs[0] is not None and isinstance(bs[0].value, ast.Call) and ast.unparse(bs[0].value.func) in ("takewhile", "itertools.takewhile") \
                and len(uses.get(name, [])) == 1:
            m[name] = bs[0]
    if not m:
        return fn
    fn = _Replace({k: v.value for k, v in m.items()}).visit(fn)
    for n in ast.walk(fn):
        for fld in ("body", "orelse", "finalbody"):
            b = getattr(n, fld, None)
            if isinstance(b, list):
                b[:] = [x for x in b if x not in m.values()] or [ast.Pass()]
    return fn


def pipeline_to_loops(fn):
    """A reader written as a pipeline of list comprehensions, as the loops it abbreviates: the stages fused, then every list comprehension
    bound to a local name written as `t = []; for ...: t.append(...)` (takewhile sources as loops with a break)."""
    fn = _inline_lazy_sources(fn)
    fn = fuse_comprehensions(fn)
    fn = _AnyCompToLoop().visit(fn)
    fn = TakeWhile().visit(fn)
    return ast.fix_missing_locations(fn)


class UnpackLiteralComp(ast.NodeTransformer):
    """a, b, c = (f(u, v) for u, v in ((x1, y1), (x2, y2), (x3, y3)))   ->   a, b, c = (f(x1, y1), f(x2, y2), f(x3, y3))
    (a generator / list comprehension over a literal sequence, unpacked into as many names: the items written out)."""

    def visit_Assign(self, node):
        self.generic_visit(node)
        import copy
        if len(node.targets) != 1 or not isinstance(node.targets[0], (ast.Tuple, ast.List)):
            return node
        tg, v = node.targets[0], node.value
        if any(isinstance(e, ast.Starred) for e in tg.elts) or not isinstance(v, (ast.GeneratorExp, ast.ListComp)) or len(v.generators) != 1:
            return node
        g = v.generators[0]
        if g.ifs or g.is_async or not isinstance(g.iter, (ast.Tuple, ast.List)) or len(g.iter.elts) != len(tg.elts):
            return node
        items = []
        for it in g.iter.elts:
            m = {}
            if isinstance(it, ast.Starred) or not _destructure(g.target, it, m):
                return node
            items.append(_Replace(m).visit(copy.deepcopy(v.elt)))
        node.value = ast.copy_location(ast.Tuple(elts=items, ctx=ast.Load()), v)
        return ast.fix_missing_locations(node)


class FoldConstantComp(ast.NodeTransformer):
    """(n for n in range(3) if n != 0)  ->  (1, 2): a comprehension over a constant range whose element and conditions mention only the
    loop variable and constants (what is left of `j, k = (n for n in range(3) if n != i)` once a helper was inlined with i = 0)."""
    OK = (ast.Compare, ast.BoolOp, ast.BinOp, ast.UnaryOp, ast.Constant, ast.Name, ast.Load, ast.operator, ast.cmpop, ast.boolop, ast.unaryop,
          ast.And, ast.Or, ast.Not)

    def _fold(self, node):
        if len(node.generators) != 1:
            return node
        g = node.generators[0]
        it = g.iter
        if g.is_async or not isinstance(g.target, ast.Name) or not (isinstance(it, ast.Call) and isinstance(it.func, ast.Name) and it.func.id == "range"
                                                                    and 1 <= len(it.args) <= 3 and not it.keywords
                                                                    and all(isinstance(a, ast.Constant) and isinstance(a.value, int) for a in it.args)):
            return node
        var = g.target.id
        for part in [node.elt] + list(g.ifs):
            for sub in ast.walk(part):
                if not isinstance(sub, self.OK) or (isinstance(sub, ast.Name) and sub.id != var):
                    return node
        rng = range(*[a.value for a in it.args])
        if len(rng) > 24:
            return node
        out = []
        try:
            for val in rng:
                env = {var: val}
                if all(eval(compile(ast.Expression(c), "<fold>", "eval"), {"__builtins__": {}}, env) for c in g.ifs):
                    out.append(eval(compile(ast.Expression(node.elt), "<fold>", "eval"), {"__builtins__": {}}, env))
        except Exception:      # noqa: BLE001
            return node
        if not all(isinstance(x, (int, float, bool)) for x in out):
            return node
        lit = ast.Tuple(elts=[ast.Constant(x) for x in out], ctx=ast.Load())
        if isinstance(node, ast.ListComp):
            lit = ast.List(elts=lit.elts, ctx=ast.Load())
        return ast.fix_missing_locations(ast.copy_location(lit, node))

    def visit_GeneratorExp(self, node):
        self.generic_visit(node)
        return self._fold(node)

    def visit_ListComp(self, node):
        self.generic_visit(node)
        return self._fold(node)


class _FoldConst(ast.NodeTransformer):
    """constant folding of what is left after a name was replaced by a literal: "-" + "x", "xyz".index("x"), "x" in "xyz", None is not None"""

    def visit_BinOp(self, node):
        self.generic_visit(node)
        if isinstance(node.op, ast.Add) and isinstance(node.left, ast.Constant) and isinstance(node.right, ast.Constant) \
                and isinstance(node.left.value, str) and isinstance(node.right.value, str):
            return ast.copy_location(ast.Constant(node.left.value + node.right.value), node)
        return node

    def visit_Call(self, node):
        self.generic_visit(node)
        f = node.func
        if isinstance(f, ast.Attribute) and f.attr in ("index", "find") and isinstance(f.value, ast.Constant) and isinstance(f.value.value, (str, tuple)) \
                and len(node.args) == 1 and not node.keywords and isinstance(node.args[0], ast.Constant):
            try:
                return ast.copy_location(ast.Constant(getattr(f.value.value, f.attr)(node.args[0].value)), node)
            except (ValueError, TypeError):
                return node
        return node

    def visit_Compare(self, node):
        self.generic_visit(node)
        if len(node.ops) == 1 and isinstance(node.left, ast.Constant) and isinstance(node.comparators[0], ast.Constant):
            a, b, op = node.left.value, node.comparators[0].value, node.ops[0]
            try:
                if isinstance(op, ast.Is):
                    return ast.copy_location(ast.Constant(a is b), node)
                if isinstance(op, ast.IsNot):
                    return ast.copy_location(ast.Constant(a is not b), node)
                if isinstance(op, ast.Eq):
                    return ast.copy_location(ast.Constant(a == b), node)
                if isinstance(op, ast.NotEq):
                    return ast.copy_location(ast.Constant(a != b), node)
                if isinstance(op, ast.In) and isinstance(b, str) and isinstance(a, str):
                    return ast.copy_location(ast.Constant(a in b), node)
            except TypeError:
                return node
        return node

    def visit_If(self, node):
        self.generic_visit(node)
        if isinstance(node.test, ast.Constant) and isinstance(node.test.value, bool):
            return node.body if node.test.value else (node.orelse or [ast.copy_location(ast.Pass(), node)])
        return node


class SearchToBranches(ast.NodeTransformer):
    """axis = next((a for a in "xyz" if a in symbol), None) ; REST   ->   if "x" in symbol: REST[axis := "x"] elif "y" in symbol: ... else:
    REST[axis := None] -- a first-match search over a short literal, written out as the if/elif chain it abbreviates, with the found value
    propagated into the statements that follow it in the same block (they are duplicated per branch and constant-folded)."""
    MAX = 6

    def _rewrite(self, body):
        import copy
        for k, st in enumerate(body):
            if not (isinstance(st, ast.Assign) and len(st.targets) == 1 and isinstance(st.targets[0], ast.Name) and isinstance(st.value, ast.Call)
                    and isinstance(st.value.func, ast.Name) and st.value.func.id == "next" and len(st.value.args) == 2 and not st.value.keywords
                    and isinstance(st.value.args[0], ast.GeneratorExp) and isinstance(st.value.args[1], ast.Constant)):
                continue
            g = st.value.args[0]
            if len(g.generators) != 1 or not isinstance(g.generators[0].target, ast.Name) or not isinstance(g.elt, ast.Name) \
                    or g.elt.id != g.generators[0].target.id:
                continue
            it = g.generators[0].iter
            if isinstance(it, ast.Constant) and isinstance(it.value, str):
                items = [ast.Constant(c) for c in it.value]
            elif isinstance(it, (ast.Tuple, ast.List)) and all(isinstance(e, ast.Constant) for e in it.elts):
                items = list(it.elts)
            else:
                continue
            name = st.targets[0].id
            rest = body[k + 1:]
            if not items or len(items) > self.MAX or any(isinstance(n, (ast.Assign, ast.AugAssign, ast.For, ast.With)) and any(
                    isinstance(t, ast.Name) and t.id == name and isinstance(t.ctx, ast.Store) for t in ast.walk(n)) for r in rest for n in ast.walk(r)):
                continue
            var = g.generators[0].target.id

            def branch(value):
                out = [ast.copy_location(ast.Assign([ast.Name(name, ast.Store())], copy.deepcopy(value)), st)]
                for r in rest:
                    r2 = _FoldConst().visit(_Replace({name: value}).visit(copy.deepcopy(r)))
                    out.extend(r2 if isinstance(r2, list) else [r2])
                return out
            chain = branch(st.value.args[1])
            for item in reversed(items):
                conds = [_FoldConst().visit(_Replace({var: item}).visit(copy.deepcopy(c))) for c in g.generators[0].ifs]
                test = conds[0] if len(conds) == 1 else (ast.BoolOp(ast.And(), conds) if conds else ast.Constant(True))
                chain = [ast.copy_location(ast.If(test, branch(item), chain), st)]
            new = body[:k] + chain
            for n in new:
                ast.fix_missing_locations(n)
            return new
        return None

    def generic_visit(self, node):
        super().generic_visit(node)
        for fld in ("body", "orelse", "finalbody"):
            b = getattr(node, fld, None)
            if isinstance(b, list) and b and all(isinstance(x, ast.stmt) for x in b):
                for _ in range(4):
                    nb = self._rewrite(b)
                    if nb is None:
                        break
                    b = nb
                setattr(node, fld, b)
        return node


def normalise(tree):
    tree = SearchToBranches().visit(tree)
    tree = UnpackLiteralComp().visit(tree)
    tree = DictMembership().visit(tree)
    tree = DictUpdate().visit(tree)
    tree = TakeWhile().visit(tree)
    tree = NestedCompToLoop().visit(tree)
    tree = DotToLoop().visit(tree)
    tree = _BoundFormat().visit(tree)
    tree = FormatToFString().visit(tree)
    return BuiltinFormat().visit(tree)
