"""Array-update summaries of kernels: (root, index polynomials, delta/value, loop domain, guards)."""
from __future__ import annotations

from dataclasses import dataclass

from .poly import P, _mentions
from .symex import Ev, Event, LoopInfo


@dataclass
class Update:
    root: P
    index: tuple
    delta: P | None      # accumulated increment (x[i] += d  or  x[i] = x[i] + d)
    value: P | None      # plain store value
    event: Event

    @property
    def loops(self):
        return self.event.loops

    @property
    def guards(self):
        return self.event.guards

    def describe(self):
        idx = ", ".join(str(i) for i in self.index)
        if self.delta is not None:
            return f"{self.root}[{idx}] += {self.delta}"
        return f"{self.root}[{idx}] = {self.value}"


def updates_of(ev: Ev, roots=None):
    out = []
    for e in ev.events:
        if e.kind not in ("store", "aug"):
            continue
        t = e.target.as_atom()
        if not t or t[0] != "sub":
            continue
        base, idx = t[1], t[2]
        if roots is not None and base.key() not in roots:
            continue
        if e.kind == "aug":
            if e.op == "Add":
                out.append(Update(base, idx, e.value, None, e))
            elif e.op == "Sub":
                out.append(Update(base, idx, -e.value, None, e))
            else:
                out.append(Update(base, idx, None, P.atom(("augop", e.op, e.target, e.value)), e))
            continue
        d = e.value - e.target
        if not _mentions(d, t):
            out.append(Update(base, idx, d, None, e))
        else:
            out.append(Update(base, idx, None, e.value, e))
    return out


def range_loops(loops):
    return [l for l in loops if l.kind == "range"]


def packed_roles(loops, L_keys=None):
    """Assign (m, l) roles to the range loops enclosing a packed-Legendre access.

    innermost range loop variable = l; an enclosing range loop whose variable is the inner lower bound = m;
    otherwise m = 0 and the inner lower bound must be 0.  Returns (m, l, L, (m_lo, m_hi)) or None.
    """
    rl = range_loops(loops)
    if not rl:
        return None
    inner = rl[-1]
    lvar = inner.index
    L = inner.hi - 1
    if len(rl) >= 2:
        outer = rl[-2]
        if inner.lo.key() == outer.index.key():
            # a different upper bound of the m loop is reported by the caller's coverage obligation
            return outer.index, lvar, L, (outer.lo, outer.hi)
        # abs(m) + 1 lower bounds are handled by the caller
    # a single loop (or one not tied to an enclosing m loop): the m = 0 row; the caller checks that l starts at m
    return P.const(0), lvar, L, (P.const(0), P.const(1))


def packed_index(m: P, l: P, L: P) -> P:
    """Position of (l, m) in the m-major packed layout: sum_{m'<m}(L+1-m') + (l-m)."""
    return l + m * (2 * L + 1 - m) / 2


def rename(p: P, mapping: dict) -> P:
    return p.subs(mapping)
