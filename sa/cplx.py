"""Complex-pair interpretation of terms: a term over complex-valued leaves is split into (real part, imaginary part),
each an exact polynomial over real atoms.  Used to compare formulas written with .real/.imag/np.real/np.imag/1j
(point-wise spherical-harmonic evaluation) with the reference form  sum_k F[k] exp(i k phi).

    cx(term, is_complex) -> (re: P, im: P)

Leaves for which ``is_complex(atom)`` holds become the pair (("re", atom), ("im", atom)); every other atom is real.
exp(i x) becomes (cos x, sin x) with the argument's sign canonicalised (cos even, sin odd).
"""
from __future__ import annotations

from fractions import Fraction

from .poly import P
from .symex import call_name, find_atoms


class NotDecidable(Exception):
    pass


def _mul(a, b):
    return (a[0] * b[0] - a[1] * b[1], a[0] * b[1] + a[1] * b[0])


def _pow(a, k):
    out = (P.const(1), P.const(0))
    for _ in range(k):
        out = _mul(out, a)
    return out


def re_atom(a):
    return P.atom(("re", a))


def im_atom(a):
    return P.atom(("im", a))


def _trig(angle: P):
    """(cos angle, sin angle) with a canonical sign of the argument."""
    neg = -angle
    if neg.key() < angle.key():
        c = P.atom(("call", P.name("cos"), (neg,)))
        s = -P.atom(("call", P.name("sin"), (neg,)))
    else:
        c = P.atom(("call", P.name("cos"), (angle,)))
        s = P.atom(("call", P.name("sin"), (angle,)))
    if angle.is_zero():
        return P.const(1), P.const(0)
    return c, s


def cx(term: P, is_complex):
    if isinstance(term, (int, Fraction)):
        return P.const(term), P.const(0)
    dre, dim = _poly(term.d, is_complex)
    if not dim.is_zero():
        raise NotDecidable(f"complex denominator in {term}")
    nre, nim = _poly(term.n, is_complex)
    return nre / dre, nim / dre


def _poly(p: dict, is_complex):
    re, im = P.const(0), P.const(0)
    for mono, coeff in p.items():
        cur = (P.const(coeff), P.const(0))
        for a, e in mono:
            base = _atom(a, is_complex)
            if isinstance(e, Fraction) and e.denominator != 1:
                if not base[1].is_zero():
                    raise NotDecidable("fractional power of a complex quantity")
                cur = _mul(cur, (base[0] ** e, P.const(0)))
            else:
                cur = _mul(cur, _pow(base, int(e)))
        re, im = re + cur[0], im + cur[1]
    return re, im


def _atom(a, is_complex):
    tag = a[0]
    if tag in ("str", "const") and a[1] in ("1j", "1J"):
        return P.const(0), P.const(1)
    if tag == "const" and isinstance(a[1], complex):
        return P.const(Fraction(a[1].real)), P.const(Fraction(a[1].imag))
    if is_complex(a):
        return re_atom(a), im_atom(a)
    if tag == "attr" and a[2] in ("real", "imag"):
        r, i = cx(a[1], is_complex)
        return (r if a[2] == "real" else i), P.const(0)
    if tag == "call":
        cn = call_name(a)
        if cn in ("numpy.real", "numpy.imag") and len(a[2]) == 1:
            r, i = cx(a[2][0], is_complex)
            return (r if cn == "numpy.real" else i), P.const(0)
        if cn in ("numpy.conj", "numpy.conjugate", ".conjugate", ".conj"):
            arg = a[2][0] if a[2] else a[1].as_atom()[1]
            r, i = cx(arg, is_complex)
            return r, -i
        if cn in ("exp", "numpy.exp") and len(a[2]) == 1:
            r, i = cx(a[2][0], is_complex)
            if not r.is_zero():
                raise NotDecidable(f"exp of a quantity with a real part: {a[2][0]}")
            return _trig(i)
    if tag == "sub" and len(a[2]) == 1:
        # element k of an elementwise expression over arange(a, b): substitute arange(a, b)[k] = a + k
        base = a[1]
        ar = find_atoms(base, lambda t: t[0] == "call" and call_name(t) == "numpy.arange" and len(t[2]) in (1, 2) and (len(t) < 4 or not t[3]))
        if ar:
            m = {}
            for t in ar:
                lo = t[2][0] if len(t[2]) == 2 else P.const(0)
                m[t] = lo + a[2][0]
            return cx(base.subs(m), is_complex)
    return P.atom(a), P.const(0)
