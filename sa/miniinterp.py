"""Concrete evaluation of table-building code, without running anything of the repository.

A refactoring may replace a literal table by a call that *computes* it at import time or at the top of a function
(``_BATCH = _generator_table("_batch")``, ``columns = _field_columns(_ATOM_FIELDS)``).  The result is a constant of the
program: a function of literals only.  To read such code like the literal it stands for, the call is evaluated here by a
small interpreter over the syntax tree: integers, strings, None, tuples / lists / dicts / slices / ranges, arithmetic and
comparisons on them, for / if / continue / break / return, comprehensions, calls of module-level functions of the same
module, and a handful of builtins (len, range, slice, enumerate, zip, getattr on a name, dict/list methods).  A name that is
not a constant (``float``, ``_sobol``, a lambda) is carried as an opaque symbol: it may be stored and returned, never
called or inspected.  Anything else raises NotConcrete and the caller leaves the code as it found it (never a verdict).
"""
from __future__ import annotations

import ast
import copy


class NotConcrete(Exception):
    pass


class Sym:
    """An opaque value: a name (or attribute chain / lambda) of the program that is passed around but not looked into."""
    __slots__ = ("src",)

    def __init__(self, src):
        self.src = src

    def __repr__(self):
        return f"Sym({self.src})"

    def __eq__(self, other):
        return isinstance(other, Sym) and other.src == self.src

    def __hash__(self):
        return hash(("Sym", self.src))


class _Return(Exception):
    def __init__(self, value):
        self.value = value


class _Break(Exception):
    pass


class _Continue(Exception):
    pass


_BIN = {ast.Add: lambda a, b: a + b, ast.Sub: lambda a, b: a - b, ast.Mult: lambda a, b: a * b, ast.FloorDiv: lambda a, b: a // b,
        ast.Mod: lambda a, b: a % b, ast.Pow: lambda a, b: a ** b}
_CMP = {ast.Eq: lambda a, b: a == b, ast.NotEq: lambda a, b: a != b, ast.Lt: lambda a, b: a < b, ast.LtE: lambda a, b: a <= b,
        ast.Gt: lambda a, b: a > b, ast.GtE: lambda a, b: a >= b, ast.Is: lambda a, b: a is b, ast.IsNot: lambda a, b: a is not b,
        ast.In: lambda a, b: a in b, ast.NotIn: lambda a, b: a not in b}
_PLAIN = (int, str, type(None), bool, float)


def _plain(v):
    if isinstance(v, Sym):
        return False
    if isinstance(v, _PLAIN):
        return True
    if isinstance(v, (tuple, list)):
        return all(_plain(x) for x in v)
    if isinstance(v, dict):
        return all(_plain(k) and _plain(x) for k, x in v.items())
    return isinstance(v, (slice, range))


class Interp:
    MAX_STEPS = 20000
    MAX_DEPTH = 5

    def __init__(self, module_tree, constants=None):
        self.funcs = {st.name: st for st in module_tree.body if isinstance(st, ast.FunctionDef)}
        self.module_tree = module_tree
        self.constants = dict(constants or {})      # module-level name -> value (filled lazily)
        self._pending = set()
        self.steps = 0
        self.depth = 0

    # ------------------------------------------------------------------ module constants
    def global_value(self, name):
        if name in self.constants:
            return self.constants[name]
        if name in self._pending:
            raise NotConcrete(f"cyclic definition of {name}")
        binds = [st for st in self.module_tree.body if isinstance(st, ast.Assign) and any(
            isinstance(t, ast.Name) and t.id == name or isinstance(t, (ast.Tuple, ast.List)) and any(isinstance(e, ast.Name) and e.id == name for e in t.elts)
            for t in st.targets)]
        binds += [st for st in self.module_tree.body if isinstance(st, ast.AnnAssign) and isinstance(st.target, ast.Name) and st.target.id == name
                  and st.value is not None]
        if len(binds) != 1:
            return Sym(name)                        # imported, a function, rebound: opaque
        self._pending.add(name)
        try:
            st = binds[0]
            try:
                v = self.expr(st.value, {})
            except NotConcrete:
                return Sym(name)
            t = st.targets[0] if isinstance(st, ast.Assign) else st.target
            if isinstance(t, ast.Name):
                self.constants[name] = v
            else:
                vals = list(v) if isinstance(v, (tuple, list, range)) else None
                if vals is None or len(vals) != len(t.elts):
                    return Sym(name)
                for e, x in zip(t.elts, vals):
                    if isinstance(e, ast.Name):
                        self.constants[e.id] = x
            return self.constants.get(name, Sym(name))
        finally:
            self._pending.discard(name)

    # ------------------------------------------------------------------ expressions
    def tick(self):
        self.steps += 1
        if self.steps > self.MAX_STEPS:
            raise NotConcrete("step budget exhausted")

    def expr(self, n, env):
        self.tick()
        if isinstance(n, ast.Constant):
            if isinstance(n.value, _PLAIN):
                return n.value
            raise NotConcrete("constant")
        if isinstance(n, ast.Name):
            if n.id in env:
                return env[n.id]
            if n.id in ("True", "False", "None"):
                return {"True": True, "False": False, "None": None}[n.id]
            if n.id in self.funcs:
                return Sym(n.id)
            return self.global_value(n.id)
        if isinstance(n, (ast.Tuple, ast.List)):
            vals = []
            for e in n.elts:
                if isinstance(e, ast.Starred):
                    v = self.expr(e.value, env)
                    if not isinstance(v, (tuple, list, range)):
                        raise NotConcrete("starred")
                    vals.extend(v)
                else:
                    vals.append(self.expr(e, env))
            return tuple(vals) if isinstance(n, ast.Tuple) else vals
        if isinstance(n, ast.Dict):
            out = {}
            for k, v in zip(n.keys, n.values):
                if k is None:
                    raise NotConcrete("dict unpacking")
                kk = self.expr(k, env)
                if not isinstance(kk, (int, str, tuple, type(None))):
                    raise NotConcrete("dict key")
                out[kk] = self.expr(v, env)
            return out
        if isinstance(n, ast.Lambda):
            return Sym("(" + ast.unparse(n) + ")")
        if isinstance(n, ast.Attribute):
            base = self.expr(n.value, env)
            if isinstance(base, Sym):
                return Sym(f"{base.src}.{n.attr}")
            if isinstance(base, slice) and n.attr in ("start", "stop", "step"):
                return getattr(base, n.attr)
            if isinstance(base, str) and n.attr == "format":
                return Sym(f"{base!r}.format")
            raise NotConcrete(f"attribute {n.attr}")
        if isinstance(n, ast.UnaryOp):
            v = self.expr(n.operand, env)
            if isinstance(n.op, ast.Not):
                return not self.truth(v)
            if isinstance(n.op, ast.USub) and isinstance(v, (int, float)):
                return -v
            raise NotConcrete("unary")
        if isinstance(n, ast.BinOp):
            a, b = self.expr(n.left, env), self.expr(n.right, env)
            f = _BIN.get(type(n.op))
            if f is None or isinstance(a, Sym) or isinstance(b, Sym) or isinstance(a, dict) or isinstance(b, dict):
                raise NotConcrete("binary operator")
            try:
                return f(a, b)
            except Exception as e:      # noqa: BLE001
                raise NotConcrete(str(e))
        if isinstance(n, ast.BoolOp):
            v = None
            for x in n.values:
                v = self.expr(x, env)
                t = self.truth(v)
                if isinstance(n.op, ast.And) and not t:
                    return v
                if isinstance(n.op, ast.Or) and t:
                    return v
            return v
        if isinstance(n, ast.Compare):
            left = self.expr(n.left, env)
            for op, c in zip(n.ops, n.comparators):
                right = self.expr(c, env)
                f = _CMP.get(type(op))
                if f is None:
                    raise NotConcrete("comparison")
                if (isinstance(left, Sym) or isinstance(right, Sym)) and not isinstance(op, (ast.Is, ast.IsNot)):
                    raise NotConcrete("comparison of a symbol")
                if isinstance(op, (ast.Is, ast.IsNot)) and (isinstance(left, Sym) or isinstance(right, Sym)):
                    # a symbol is some object: it is not None / True / False; identity between symbols is not decided
                    if left is None or right is None or isinstance(left, bool) or isinstance(right, bool):
                        res = isinstance(op, ast.IsNot)
                    else:
                        raise NotConcrete("identity of symbols")
                else:
                    try:
                        res = f(left, right)
                    except Exception as e:      # noqa: BLE001
                        raise NotConcrete(str(e))
                if not res:
                    return False
                left = right
            return True
        if isinstance(n, ast.IfExp):
            return self.expr(n.body if self.truth(self.expr(n.test, env)) else n.orelse, env)
        if isinstance(n, ast.Subscript):
            base = self.expr(n.value, env)
            if isinstance(n.slice, ast.Slice):
                idx = slice(*[None if x is None else self.expr(x, env) for x in (n.slice.lower, n.slice.upper, n.slice.step)])
            else:
                idx = self.expr(n.slice, env)
            if isinstance(base, Sym) or isinstance(idx, Sym):
                raise NotConcrete("subscript of a symbol")
            try:
                return base[idx]
            except Exception as e:      # noqa: BLE001
                raise NotConcrete(str(e))
        if isinstance(n, ast.JoinedStr):
            parts = []
            for v in n.values:
                if isinstance(v, ast.Constant):
                    parts.append(str(v.value))
                elif isinstance(v, ast.FormattedValue) and v.conversion == -1 and v.format_spec is None:
                    x = self.expr(v.value, env)
                    if not isinstance(x, (int, str)):
                        raise NotConcrete("f-string")
                    parts.append(str(x))
                else:
                    raise NotConcrete("f-string")
            return "".join(parts)
        if isinstance(n, (ast.ListComp, ast.GeneratorExp, ast.DictComp, ast.SetComp)):
            return self.comp(n, env)
        if isinstance(n, ast.Call):
            return self.call(n, env)
        raise NotConcrete(type(n).__name__)

    def truth(self, v):
        if isinstance(v, Sym):
            return True
        return bool(v)

    def comp(self, n, env):
        out = [] if not isinstance(n, ast.DictComp) else {}

        def rec(k, env):
            if k == len(n.generators):
                if isinstance(n, ast.DictComp):
                    out[self.expr(n.key, env)] = self.expr(n.value, env)
                else:
                    out.append(self.expr(n.elt, env))
                return
            g = n.generators[k]
            it = self.iterable(self.expr(g.iter, env))
            for v in it:
                e2 = dict(env)
                self.bind(g.target, v, e2)
                if all(self.truth(self.expr(c, e2)) for c in g.ifs):
                    rec(k + 1, e2)
        rec(0, dict(env))
        if isinstance(n, ast.SetComp):
            raise NotConcrete("set comprehension")
        return out

    def iterable(self, v):
        if isinstance(v, (tuple, list, range, str)):
            return list(v)
        if isinstance(v, dict):
            return list(v)
        raise NotConcrete("iteration over a non-constant")

    def bind(self, target, v, env):
        if isinstance(target, ast.Name):
            env[target.id] = v
        elif isinstance(target, (ast.Tuple, ast.List)):
            vals = self.iterable(v)
            star = [i for i, e in enumerate(target.elts) if isinstance(e, ast.Starred)]
            if star:
                i = star[0]
                after = len(target.elts) - i - 1
                if len(vals) < len(target.elts) - 1:
                    raise NotConcrete("unpacking")
                for e, x in zip(target.elts[:i], vals[:i]):
                    self.bind(e, x, env)
                self.bind(target.elts[i].value, list(vals[i:len(vals) - after]), env)
                for e, x in zip(target.elts[i + 1:], vals[len(vals) - after:]):
                    self.bind(e, x, env)
                return
            if len(vals) != len(target.elts):
                raise NotConcrete("unpacking")
            for e, x in zip(target.elts, vals):
                self.bind(e, x, env)
        else:
            raise NotConcrete("assignment target")

    def call(self, n, env):
        if any(isinstance(a, ast.Starred) for a in n.args) or any(k.arg is None for k in n.keywords):
            raise NotConcrete("star arguments")
        # methods of concrete containers
        if isinstance(n.func, ast.Attribute):
            base = self.expr(n.func.value, env)
            args = [self.expr(a, env) for a in n.args]
            m = n.func.attr
            if isinstance(base, dict) and not n.keywords:
                if m == "items" and not args:
                    return [(k, v) for k, v in base.items()]
                if m == "keys" and not args:
                    return list(base.keys())
                if m == "values" and not args:
                    return list(base.values())
                if m == "get" and 1 <= len(args) <= 2:
                    return base.get(args[0], args[1] if len(args) == 2 else None)
                if m == "setdefault" and len(args) == 2:
                    return base.setdefault(args[0], args[1])
                if m == "update" and len(args) == 1 and isinstance(args[0], dict):
                    base.update(args[0])
                    return None
            if isinstance(base, list) and not n.keywords:
                if m == "append" and len(args) == 1:
                    base.append(args[0])
                    return None
                if m == "extend" and len(args) == 1:
                    base.extend(self.iterable(args[0]))
                    return None
            if isinstance(base, str) and not n.keywords and all(isinstance(a, (int, str)) for a in args):
                if m in ("lower", "upper", "strip", "capitalize", "title") and not args:
                    return getattr(base, m)()
                if m == "format":
                    try:
                        return base.format(*args)
                    except Exception as e:      # noqa: BLE001
                        raise NotConcrete(str(e))
                if m in ("startswith", "endswith") and len(args) == 1 and isinstance(args[0], str):
                    return getattr(base, m)(args[0])
            raise NotConcrete(f"method {m}")
        if not isinstance(n.func, ast.Name):
            raise NotConcrete("call of an expression")
        name = n.func.id
        args = [self.expr(a, env) for a in n.args]
        kwargs = {k.arg: self.expr(k.value, env) for k in n.keywords}
        if name in env:
            raise NotConcrete("call of a local")
        if name in self.funcs:
            return self.apply(self.funcs[name], args, kwargs)
        if kwargs and not (name == "enumerate" and set(kwargs) == {"start"}) and not (name == "dict"):
            raise NotConcrete("keywords of a builtin")
        if name == "len" and len(args) == 1 and not isinstance(args[0], Sym):
            return len(args[0])
        if name == "range" and 1 <= len(args) <= 3 and all(type(a) is int for a in args):
            return range(*args)
        if name == "slice" and 1 <= len(args) <= 3 and all(a is None or type(a) is int for a in args):
            return slice(*args)
        if name in ("tuple", "list") and len(args) <= 1:
            return (tuple if name == "tuple" else list)(self.iterable(args[0]) if args else [])
        if name == "dict":
            if not args:
                return dict(kwargs)
            if len(args) == 1 and not kwargs:
                src = args[0]
                return dict(src) if isinstance(src, dict) else dict(self.iterable(src))
        if name == "enumerate" and 1 <= len(args) <= 2:
            start = kwargs.get("start", args[1] if len(args) == 2 else 0)
            return [(i, v) for i, v in enumerate(self.iterable(args[0]), start=start)]
        if name == "zip":
            return [tuple(x) for x in zip(*[self.iterable(a) for a in args])]
        if name in ("sum", "min", "max") and len(args) == 1:
            vals = self.iterable(args[0])
            if all(type(v) is int for v in vals) and (vals or name == "sum"):
                return {"sum": sum, "min": min, "max": max}[name](vals)
        if name in ("str", "int") and len(args) == 1 and isinstance(args[0], (int, str)):
            try:
                return {"str": str, "int": int}[name](args[0])
            except ValueError as e:
                raise NotConcrete(str(e))
        if name == "getattr" and len(args) == 2 and isinstance(args[0], Sym) and isinstance(args[1], str) and args[1].isidentifier():
            return Sym(f"{args[0].src}.{args[1]}")
        if name in ("sorted", "reversed") and len(args) == 1:
            vals = self.iterable(args[0])
            try:
                return sorted(vals) if name == "sorted" else list(reversed(vals))
            except TypeError as e:
                raise NotConcrete(str(e))
        raise NotConcrete(f"call of {name}")

    def apply(self, fn, args, kwargs):
        a = fn.args
        if a.vararg or a.kwarg or a.posonlyargs or fn.decorator_list or any(isinstance(x, (ast.Yield, ast.YieldFrom, ast.Global, ast.Nonlocal))
                                                                            for x in ast.walk(fn)):
            raise NotConcrete(f"signature of {fn.name}")
        self.depth += 1
        if self.depth > self.MAX_DEPTH:
            raise NotConcrete("call depth")
        try:
            params = [x.arg for x in a.args]
            if len(args) > len(params):
                raise NotConcrete("arguments")
            env = dict(zip(params, args))
            defaults = dict(zip(params[len(params) - len(a.defaults):], a.defaults))
            for k, d in zip(a.kwonlyargs, a.kw_defaults):
                params.append(k.arg)
                if d is not None:
                    defaults[k.arg] = d
            for k, v in kwargs.items():
                if k not in params or k in env:
                    raise NotConcrete("arguments")
                env[k] = v
            for p in params:
                if p not in env:
                    if p not in defaults:
                        raise NotConcrete("arguments")
                    env[p] = self.expr(defaults[p], {})
            try:
                self.block(fn.body, env)
            except _Return as r:
                return r.value
            return None
        finally:
            self.depth -= 1

    # ------------------------------------------------------------------ statements
    def block(self, stmts, env):
        for st in stmts:
            self.tick()
            if isinstance(st, ast.Expr):
                if isinstance(st.value, ast.Constant):
                    continue
                self.expr(st.value, env)
            elif isinstance(st, ast.Assign):
                v = self.expr(st.value, env)
                for t in st.targets:
                    self.store(t, v, env)
            elif isinstance(st, ast.AnnAssign) and st.value is not None:
                self.store(st.target, self.expr(st.value, env), env)
            elif isinstance(st, ast.AugAssign) and isinstance(st.target, ast.Name):
                cur = self.expr(ast.Name(st.target.id, ast.Load()), env)
                v = self.expr(st.value, env)
                f = _BIN.get(type(st.op))
                if f is None or isinstance(cur, Sym) or isinstance(v, Sym):
                    raise NotConcrete("augmented assignment")
                env[st.target.id] = f(cur, v)
            elif isinstance(st, ast.If):
                self.block(st.body if self.truth(self.expr(st.test, env)) else st.orelse, env)
            elif isinstance(st, ast.For):
                broke = False
                for v in self.iterable(self.expr(st.iter, env)):
                    self.bind(st.target, v, env)
                    try:
                        self.block(st.body, env)
                    except _Continue:
                        continue
                    except _Break:
                        broke = True
                        break
                if not broke:
                    self.block(st.orelse, env)
            elif isinstance(st, ast.While):
                while self.truth(self.expr(st.test, env)):
                    self.tick()
                    try:
                        self.block(st.body, env)
                    except _Continue:
                        continue
                    except _Break:
                        break
            elif isinstance(st, ast.Return):
                raise _Return(self.expr(st.value, env) if st.value is not None else None)
            elif isinstance(st, ast.Break):
                raise _Break()
            elif isinstance(st, ast.Continue):
                raise _Continue()
            elif isinstance(st, ast.Pass):
                continue
            else:
                raise NotConcrete(f"statement {type(st).__name__}")

    def store(self, t, v, env):
        if isinstance(t, ast.Subscript) and not isinstance(t.slice, ast.Slice):
            base = self.expr(t.value, env)
            idx = self.expr(t.slice, env)
            if isinstance(base, (dict, list)) and not isinstance(idx, Sym):
                try:
                    base[idx] = v
                except Exception as e:      # noqa: BLE001
                    raise NotConcrete(str(e))
                return
            raise NotConcrete("store into a non-constant")
        self.bind(t, v, env)


def to_ast(v):
    """The value written as a literal expression (symbols as the names they stand for)."""
    if isinstance(v, Sym):
        return ast.parse(v.src, mode="eval").body
    if isinstance(v, bool) or v is None or isinstance(v, (int, str, float)):
        if isinstance(v, (int, float)) and not isinstance(v, bool) and v < 0:
            return ast.UnaryOp(ast.USub(), ast.Constant(-v))
        return ast.Constant(v)
    if isinstance(v, tuple):
        return ast.Tuple([to_ast(x) for x in v], ast.Load())
    if isinstance(v, list):
        return ast.List([to_ast(x) for x in v], ast.Load())
    if isinstance(v, dict):
        return ast.Dict([to_ast(k) for k in v], [to_ast(x) for x in v.values()])
    if isinstance(v, slice):
        return ast.Call(ast.Name("slice", ast.Load()), [to_ast(v.start), to_ast(v.stop)] + ([to_ast(v.step)] if v.step is not None else []), [])
    if isinstance(v, range):
        return ast.Call(ast.Name("range", ast.Load()), [to_ast(v.start), to_ast(v.stop), to_ast(v.step)], [])
    raise NotConcrete(f"no literal for {type(v).__name__}")


def evaluate_call(module_tree, call: ast.Call, interp=None):
    """The literal a call of a module-level function stands for, when it is a function of literals only; None otherwise."""
    it = interp or Interp(module_tree)
    try:
        v = it.expr(copy.deepcopy(call), {})
        if isinstance(v, Sym):
            return None
        node = to_ast(v)
    except (NotConcrete, RecursionError, SyntaxError):
        return None
    return ast.fix_missing_locations(node)
