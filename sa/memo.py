"""Memoisation discipline (rule family G4): inventory of caches and the obligations they create.

Three kinds of cache are recognised
  * instance memo:   ``if hasattr(self, "_x"): return ...`` + ``setattr(self, "_x", v)`` / ``self._x = v``,
                     and dictionary memos  ``if key in self._c: return self._c[key]`` + ``self._c[key] = v``;
  * module cache:    a module-level dict filled and consulted inside a function/method;
  * decorator cache: functools.lru_cache / functools.cache on a function.

Obligations
  * every method that may write an attribute the memoised computation reads must remove the memo afterwards;
  * a cache shared between instances must be keyed by everything the cached value depends on (at least the attributes
    the class's __eq__/__hash__ use);
  * a decorator cache must not sit on a function that reads external state (files).
"""
from __future__ import annotations

import ast

from .poly import P
from .symex import seq_items, Ev, find_atoms, call_name
from .effects import Effects, property_hook, alias_path


def _str(p):
    a = p.as_atom() if isinstance(p, P) else None
    return a[1] if a and a[0] == "str" else None


def is_classmethod(fn):
    return any(isinstance(d, ast.Name) and d.id in ("classmethod", "staticmethod") for d in fn.decorator_list)


def _is_self_dict(t: P) -> bool:
    return t.key() in ("self.__dict__", "vars(self)")


def dict_root(term: P):
    """Name of the instance attribute a dictionary-like term is stored under, for the spellings
    self._c / getattr(self, '_c', ..) / self.__dict__['_c'] / self.__dict__.setdefault('_c', {}) / vars(self)...."""
    a = term.as_atom() if isinstance(term, P) else None
    if not a:
        return None
    if a[0] == "obj":
        return dict_root(a[3])
    if a[0] == "call":
        if call_name(a) == "getattr" and a[2] and a[2][0].key() == "self" and _str(a[2][1]):
            return _str(a[2][1])
        f = a[1].as_atom() if isinstance(a[1], P) else None
        if f and f[0] == "attr" and f[2] in ("setdefault", "get") and a[2] and _str(a[2][0]) and _is_self_dict(f[1]):
            return _str(a[2][0])
    if a[0] == "sub" and isinstance(a[1], P) and _is_self_dict(a[1]) and len(a[2]) == 1 and _str(a[2][0]):
        return _str(a[2][0])
    r = alias_path(term)
    return r if r and r.startswith("_") else None


def instance_memos(mod, cls):
    """{attr: (method name, node, kind)} for memo attributes of a class."""
    memos = {}
    for fn in mod.methods(cls):
        if is_classmethod(fn) or fn.name == "__init__":
            continue
        ev = Ev(fn, mod.ctx).run()
        tested = set()
        dict_tested = set()
        for e in ev.events:
            if e.kind != "test":
                continue
            for a in find_atoms(e.value, lambda a: a[0] == "call" and call_name(a) == "hasattr" and a[2] and a[2][0].key() == "self"):
                s = _str(a[2][1])
                if s:
                    tested.add(s)
            for a in find_atoms(e.value, lambda a: a[0] in ("in", "notin")):
                root = dict_root(a[2])
                if root:
                    dict_tested.add(root)
            # cached = getattr(self, "_x", None); if cached is not None: return cached
            for a in find_atoms(e.value, lambda a: a[0] in ("is", "isnot")):
                for x, y in ((a[1], a[2]), (a[2], a[1])):
                    xa = x.as_atom()
                    if y.key() == "None" and xa and xa[0] == "call" and call_name(xa) == "getattr" and len(xa[2]) == 3 and xa[2][0].key() == "self" \
                            and xa[2][2].key() == "None" and _str(xa[2][1]):
                        tested.add(_str(xa[2][1]))
        # ... unless the cached value is also compared with a key (cached[0] == key): that is a keyed last-value memo (handled below)
        for e in ev.events:
            if e.kind != "test":
                continue
            for a in find_atoms(e.value, lambda a: a[0] in ("eq", "ne")):
                for nm in list(tested):
                    if f"getattr(self, '{nm}', None)" in a[1].key() or f"getattr(self, '{nm}', None)" in a[2].key():
                        tested.discard(nm)
        # try: return self._x  except AttributeError: compute
        for r in ev.returns:
            if r.value is None:
                continue
            ra = r.value.as_atom()
            if ra and ra[0] == "attr" and ra[1].key() == "self" and any(
                    (c.as_atom() or ("",))[0] == "try" and "AttributeError" in str((c.as_atom() or ("", 0, ()))[2]) for c, _ in r.guards):
                tested.add(ra[2])
        # consulted through .get(key) / [key] under try: the dictionary lives on the instance under any spelling
        for e in ev.events:
            if e.value is None:
                continue
            for a in find_atoms(e.value, lambda a: a[0] == "call" and isinstance(a[1], P) and (a[1].as_atom() or ("",))[0] == "attr"
                                and a[1].as_atom()[2] == "get" and a[2]):
                recv = a[1].as_atom()[1]
                if _is_self_dict(recv):
                    continue
                root = dict_root(recv)
                if root and not _str(a[2][0]):
                    dict_tested.add(root)
        # last-value memo:  cached = getattr(self, "_x", None); if cached is not None and cached[0] == key: ... ; setattr(self, "_x", (key, ...))
        got = set()
        for e in ev.events:
            for val in (e.value,):
                if val is None:
                    continue
                for a in find_atoms(val, lambda a: a[0] == "call" and call_name(a) == "getattr" and len(a[2]) == 3 and a[2][0].key() == "self"
                                    and a[2][2].key() == "None"):
                    if _str(a[2][1]):
                        got.add(_str(a[2][1]))
        for e in ev.events:
            if e.kind == "call" and call_name(e.value.as_atom() or ()) == "setattr" and e.extra["args"][0].key() == "self":
                s = _str(e.extra["args"][1])
                if s in tested:
                    memos[s] = (fn.name, e.node, "attr")
                elif s in got and len(e.extra["args"]) == 3:
                    val = e.extra["args"][2]
                    keyt = ()
                    for t in ev.events:
                        if t.kind != "test":
                            continue
                        for a in find_atoms(t.value, lambda a: a[0] == "eq"):
                            for x, y in ((a[1], a[2]), (a[2], a[1])):
                                if f"getattr(self, '{s}', None)" in x.key():
                                    keyt = (y,)
                    memos[s] = (fn.name, e.node, "keyed", keyt, val)
            if e.kind == "store":
                t = e.target.as_atom()
                if t and t[0] == "attr" and t[1].key() == "self" and t[2] in tested:
                    memos[t[2]] = (fn.name, e.node, "attr")
                elif t and t[0] == "attr" and t[1].key() == "self" and t[2] in got:
                    # cached = getattr(self, "_x", None); if cached is None or cached[0] != key: ...; self._x = (key, value)
                    # only equality tests make a key: `cached[0] is not self.positions` compares identities, which an in-place
                    # change of the array does not alter
                    s_ = t[2]
                    keyt = ()
                    for tt in ev.events:
                        if tt.kind != "test":
                            continue
                        for a in find_atoms(tt.value, lambda a: a[0] == "eq"):
                            for x, y in ((a[1], a[2]), (a[2], a[1])):
                                if f"getattr(self, '{s_}', None)" in x.key():
                                    keyt = keyt + (y,)
                    memos[s_] = (fn.name, e.node, "keyed", keyt, e.value)
                if t and t[0] == "sub" and not _is_self_dict(t[1]):
                    root = dict_root(t[1])
                    if root in dict_tested:
                        memos[root] = (fn.name, e.node, "dict", tuple(t[2]), e.value)
    return {k: v for k, v in memos.items() if not k.startswith("_have_warned") and k not in _dead_memos(mod, cls, memos)}


def _dead_memos(mod, cls, memos):
    """memo attributes that their own getter resets unconditionally before use (not a cache at all)."""
    dead = set()
    for name, info in memos.items():
        fn = mod.funcs.get(f"{cls}.{info[0]}")
        if fn is None:
            continue
        for st in fn.body:
            if isinstance(st, ast.Assign) and len(st.targets) == 1 and isinstance(st.targets[0], ast.Attribute) \
                    and isinstance(st.targets[0].value, ast.Name) and st.targets[0].value.id == "self" and st.targets[0].attr == name \
                    and ((isinstance(st.value, ast.Dict) and not st.value.keys) or (isinstance(st.value, ast.Constant) and st.value.value is None)):
                dead.add(name)
    return dead


def read_attrs(mod, cls, meth, depth=0, seen=None):
    """self attributes a method reads, following self.method() calls and properties."""
    seen = seen if seen is not None else set()
    if (cls, meth) in seen or depth > 4:
        return set()
    seen.add((cls, meth))
    fn = mod.funcs.get(f"{cls}.{meth}")
    if fn is None:
        return set()
    ev = Ev(fn, mod.ctx).run()
    out = set()
    names = {f.name for f in mod.methods(cls)}
    for e in ev.events:
        for val in (e.value, e.target):
            if val is None:
                continue
            for a in find_atoms(val, lambda a: a[0] == "attr" and a[1].key() == "self"):
                if a[2] in names:
                    out |= read_attrs(mod, cls, a[2], depth + 1, seen)
                else:
                    out.add(a[2])
            for a in find_atoms(val, lambda a: a[0] == "call" and call_name(a) == "getattr" and a[2] and a[2][0].key() == "self"):
                s = _str(a[2][1]) if len(a[2]) > 1 else None
                if s:
                    out.add(s)
    return out


def _prefix_scan(term: P, memos):
    """delattr(self, name) for name in [k for k in vars(self) if k.startswith(PREFIXES)]: every attribute the instance has whose name
    starts with one of the literal prefixes -> the memos among them (no other condition, no negation)."""
    a = term.as_atom()
    if not (a and a[0] == "sub" and len(a[2]) == 1 and a[2][0].as_atom() and a[2][0].as_atom()[0] == "lv"):
        return set()
    c = a[1].as_atom()
    while c and c[0] == "call" and call_name(c) in ("list", "tuple", "sorted") and c[2]:
        c = c[2][0].as_atom()
    if not (c and c[0] == "comp" and c[1] in ("ListComp", "GeneratorExp") and len(c) == 4 and len(c[3]) == 1):
        return set()
    kind, it, conds = c[3][0]
    src = it.key()
    for w in ("list(", "tuple("):
        if src.startswith(w) and src.endswith(")"):
            src = src[len(w):-1]
    if src not in ("vars(self)", "self.__dict__", "vars(self).keys()", "self.__dict__.keys()", "dir(self)") or len(conds) != 1:
        return set()
    if c[2].key() != P.atom(("sub", it, (c[2].as_atom()[2][0],))).key() if c[2].as_atom() and c[2].as_atom()[0] == "sub" else True:
        return set()
    ca = conds[0].as_atom()
    if not (ca and ca[0] == "call" and call_name(ca) == ".startswith" and len(ca[2]) == 1 and ca[1].as_atom()[1].key() == c[2].key()):
        return set()
    from .symex import seq_items as _si
    pre = [_str(x) for x in (_si(ca[2][0]) or [ca[2][0]])]
    if not pre or any(p is None for p in pre):
        return set()
    return {m for m in memos if m.startswith(tuple(pre))}


def removals(mod, cls, ev, memos, depth=0):
    """[(event index, {memo names removed}, guards)] in an evaluated method (direct or through a self-call helper)."""
    out = []
    for idx, e in enumerate(ev.events):
        if e.kind == "call":
            cn = call_name(e.value.as_atom() or ())
            args = e.extra.get("args", ())
            if cn == "delattr" and args and args[0].key() == "self":
                s = _str(args[1])
                if s in memos:
                    out.append((idx, {s}, e.guards))
                else:
                    names = _prefix_scan(args[1], memos)
                    if names:
                        out.append((idx, names, e.guards))
            elif cn == ".pop" and e.target.key() in ("self.__dict__.pop", "vars(self).pop") and args:
                s = _str(args[0])
                if s in memos:
                    out.append((idx, {s}, e.guards))
            elif cn in (".clear",) and e.target is not None:
                root = alias_path(e.target.as_atom()[1])
                if root in memos:
                    out.append((idx, {root}, e.guards))
            elif cn == "setattr" and args and args[0].key() == "self" and _str(args[1]) in memos and len(args) > 2 \
                    and args[2].key() in ("(dict ())", "None", "dict()"):
                out.append((idx, {_str(args[1])}, e.guards))
            elif e.target is not None and e.target.as_atom() and e.target.as_atom()[0] == "attr" and e.target.as_atom()[1].key() == "self" and depth < 3:
                m = e.target.as_atom()[2]
                sub = mod.funcs.get(f"{cls}.{m}")
                if sub is not None:
                    sev = Ev(sub, mod.ctx).run()
                    names = set()
                    for (_, ns, g) in removals(mod, cls, sev, memos, depth + 1):
                        if all(benign_guard(c) for c, _ in g):
                            names |= ns
                    if names:
                        out.append((idx, names, e.guards))
        elif e.kind == "delete":
            t = e.target.as_atom()
            if t and t[0] == "attr" and t[1].key() == "self" and t[2] in memos:
                out.append((idx, {t[2]}, e.guards))
        elif e.kind == "store":
            t = e.target.as_atom()
            if t and t[0] == "attr" and t[1].key() == "self" and t[2] in memos and e.value.key() in ("(dict ())", "None", "dict()"):
                out.append((idx, {t[2]}, e.guards))
    return out


def benign_guard(c: P) -> bool:
    k = c.key()
    return k.startswith("hasattr(self") or "in self.__dict__" in k or "in vars(self)" in k or k.startswith("(not hasattr(self")


def check_mutators_invalidate(chk, rule, rel, cls, memos, mutators, fx=None):
    """mutators: {method: [Write]} ; memos: {name: ...}.  One obligation per mutator."""
    mod = chk.repo.module(rel)
    for m, ws in sorted(mutators.items()):
        fn = mod.func(f"{cls}.{m}")
        ev = Ev(fn, mod.ctx, attr_hook=property_hook(mod, cls)).run()
        chk.saw(rel, f"{cls}.{m}")
        last = -1
        last_guards = ()
        for idx, e in enumerate(ev.events):
            if any(getattr(e.node, "lineno", -1) == getattr(w.node, "lineno", -2) for w in ws):
                last = idx
                last_guards = e.guards
        inv = removals(mod, cls, ev, memos)
        covered = set()
        lg = {(c.key(), p) for c, p in last_guards}
        getters = {info[0] for info in memos.values() if info and isinstance(info[0], str)}
        for idx, names, g in inv:
            extra = [(c, p) for c, p in g if (c.key(), p) not in lg and not benign_guard(c)]
            if idx > last and not extra:
                covered |= names
            elif idx <= last and not extra:
                # dropped first, state changed afterwards: as good, provided nothing in between can fill the memo again from the old state
                # (no call of a memoising getter between the removal and the last state store)
                refill = [e for e in ev.events[idx:last + 1] if e.kind == "call" and e.target is not None and e.target.as_atom()
                          and e.target.as_atom()[0] == "attr" and e.target.as_atom()[1].key() == "self" and e.target.as_atom()[2] in getters]
                if not refill:
                    covered |= names
        early = [e for e in ev.events[last + 1:] if e.kind == "return" and (not inv or ev.events.index(e) < max(i for i, _, _ in inv))]
        missing = sorted(set(memos) - covered)
        chk.ob(rule, rel, f"{cls}.{m}", f"after changing {sorted({w.attr for w in ws})} every memo is dropped on the way to every normal exit",
               not missing and not early, node=fn, fingerprint="invalidate",
               expected=f"removal of {sorted(memos)} after the last state store",
               found=f"not removed: {missing}" + (f"; return before invalidation at line {early[0].lineno}" if early else "") +
                     f" (writes: {[w.how for w in ws][:3]})")


def check_partial_removals(chk, rule, rel, cls, memos, attr_hook=None):
    """A method that drops some memos (to recompute them) must drop every memo computed from them as well."""
    mod = chk.repo.module(rel)
    getters = {name: info[0] for name, info in memos.items()}
    reads = {}
    for fn in mod.methods(cls):
        if is_classmethod(fn) or fn.name == "__init__":
            continue
        ev = Ev(fn, mod.ctx).run()
        removed = set()
        for _, names, _g in removals(mod, cls, ev, memos):
            removed |= names
        if not removed or removed >= set(memos):
            continue
        stale = []
        for y, gy in sorted(getters.items()):
            if y in removed:
                continue
            if gy not in reads:
                reads[gy] = read_attrs(mod, cls, gy)
            src = sorted(x for x in removed if x in reads[gy] and getters.get(x) != gy)
            if src:
                stale.append(f"{y} (computed by {gy}() from {', '.join(src)})")
        chk.ob(rule, rel, f"{cls}.{fn.name}", f"dropping {sorted(removed)} also drops every memo computed from them", not stale, node=fn,
               fingerprint=f"partial-removal:{fn.name}", expected="removal of the dependent memos as well (or a call of the class's invalidation helper)",
               found=f"kept: {stale}")


def check_memo_params(chk, rule, rel, cls, memos):
    """An attribute memo (``if hasattr(self, '_x'): return ...``) answers every later call whatever its arguments: the getter's own
    parameters must not influence the cached value (or must be part of the memo test)."""
    mod = chk.repo.module(rel)
    for name, info in sorted(memos.items()):
        if info[2] != "attr":
            continue
        fn = mod.funcs.get(f"{cls}.{info[0]}")
        if fn is None:
            continue
        params = [a.arg for a in fn.args.args[1:] + fn.args.kwonlyargs] + ([fn.args.kwarg.arg] if fn.args.kwarg else [])
        if not params:
            continue
        used = set()
        for n in ast.walk(fn):
            if isinstance(n, ast.Call) and isinstance(n.func, ast.Attribute) and isinstance(n.func.value, ast.Name) and n.func.value.id in ("LOG", "logging"):
                continue
            if isinstance(n, ast.Name) and isinstance(n.ctx, ast.Load) and n.id in params:
                used.add(n.id)
        # names inside logging calls only do not count
        logged = set()
        for n in ast.walk(fn):
            if isinstance(n, ast.Call) and isinstance(n.func, ast.Attribute) and isinstance(n.func.value, ast.Name) and n.func.value.id in ("LOG", "logging"):
                logged |= {x.id for x in ast.walk(n) if isinstance(x, ast.Name)}
        tested = set()
        for n in ast.walk(fn):
            if isinstance(n, ast.If):
                src = ast.unparse(n.test)
                if name in src:
                    tested |= {x.id for x in ast.walk(n.test) if isinstance(x, ast.Name)}
        loose = sorted(p for p in used if p not in tested)
        chk.ob(rule, rel, f"{cls}.{info[0]}", f"the memo {name} answers a later call only for the arguments it was computed with "
               "(the getter's parameters are part of the memo test, or do not influence the cached value)", not loose, node=fn,
               fingerprint=f"memo-args:{info[0]}", expected="a memo keyed by (or compared with) the arguments", found=f"parameters {loose} are used to compute the value but ignored by the memo test")


def check_memo_key(chk, rule, rel, cls, name, info):
    """A keyed memo (dictionary entry or last-value memo) must be keyed by everything its value is computed from."""
    if len(info) <= 4 or info[2] not in ("dict", "keyed"):
        return
    mod = chk.repo.module(rel)
    getter, node = info[0], info[1]
    fn0 = mod.funcs.get(f"{cls}.{getter}")
    params = {a.arg for a in fn0.args.args + fn0.args.kwonlyargs} - {"self", "cls"} if fn0 is not None else set()
    if fn0 is not None and fn0.args.kwarg:
        params.add(fn0.args.kwarg.arg)
    deps = _names(info[4], params)
    have = set()
    for kt in info[3]:
        have |= _names(_drop_lossy(kt), params)
    missing = sorted(deps - have)
    chk.ob(rule, rel, f"{cls}.{getter}", f"the key of memo {name} determines every argument the stored value is computed from "
           "(an argument that only enters through floor/round/int/len/shape is not determined)", not missing, node=node,
           fingerprint=f"memo-key:{name}", expected=f"key covering {sorted(deps)}",
           found=f"key {[str(k)[:60] for k in info[3]]} does not determine {missing}")


def class_memo_discipline(chk, rule, rel, cls, allow=None, attr_types=None, state=None):
    """Generic G4 for one class: every memo (not allow-listed) must be invalidated by every method that writes what it reads."""
    allow = allow or {}
    mod = chk.repo.module(rel)
    memos = {k: v for k, v in instance_memos(mod, cls).items() if k not in allow}
    fx = Effects(chk.repo, attr_types or {})
    n = 0
    for name, info in sorted(memos.items()):
        getter, node, kind = info[0], info[1], info[2]
        reads = set(state) if state else (read_attrs(mod, cls, getter) - set(memos) - set(allow))
        check_memo_key(chk, rule, rel, cls, name, info)
        if kind in ("dict", "keyed") and len(info) > 3 and info[3]:
            # attributes that are part of the dictionary key cannot go stale
            names = {f.name for f in mod.methods(cls)}
            for kt in info[3]:
                for a in _self_attrs(kt):
                    reads -= (read_attrs(mod, cls, a) if a in names else {a})
        mutators = {}
        for fn in mod.methods(cls):
            if is_classmethod(fn) or fn.name in ("__init__", getter):
                continue
            ws = [w for w in fx.method_writes(rel, cls, fn.name) if w.attr in reads]
            if ws:
                mutators[fn.name] = ws
        n += 1
        if not mutators:
            chk.ob(rule, rel, f"{cls}.{getter}", f"memo {name} reads {sorted(reads)[:6]}; no method of {cls} writes any of them", True,
                   node=node, fingerprint=f"memo:{name}", nontrivial=False)
            continue
        check_mutators_invalidate(chk, rule, rel, cls, {name: memos[name]}, mutators, fx)
    if len(memos) > 1:
        check_partial_removals(chk, rule, rel, cls, memos)
    return memos


def module_caches(mod):
    """{name: [(qualname, key term, event)]} : module-level dicts that functions fill and consult."""
    names = set()
    for st in mod.tree.body:
        if isinstance(st, ast.Assign) and len(st.targets) == 1 and isinstance(st.targets[0], ast.Name):
            v = st.value
            if (isinstance(v, ast.Dict) and not v.keys) or (isinstance(v, ast.Call) and isinstance(v.func, ast.Name) and v.func.id in ("dict", "OrderedDict", "WeakValueDictionary") and not v.args):
                names.add(st.targets[0].id)
    # class-level dictionaries are shared by all instances as well
    cls_names = {}
    for st in mod.tree.body:
        if isinstance(st, ast.ClassDef):
            for b in st.body:
                if isinstance(b, ast.Assign) and len(b.targets) == 1 and isinstance(b.targets[0], ast.Name):
                    v = b.value
                    if (isinstance(v, ast.Dict) and not v.keys) or (isinstance(v, ast.Call) and isinstance(v.func, ast.Name) and v.func.id in ("dict", "OrderedDict") and not v.args):
                        cls_names.setdefault(st.name, set()).add(b.targets[0].id)
    out = {}
    if not names and not cls_names:
        return out
    for qual, fn in mod.funcs.items():
        src_names = {n.id for n in ast.walk(fn) if isinstance(n, ast.Name)} | {n.attr for n in ast.walk(fn) if isinstance(n, ast.Attribute)}
        cls = qual.split(".")[0] if "." in qual else None
        cn = cls_names.get(cls, set())
        if not (names & src_names) and not (cn & src_names):
            continue
        ev = Ev(fn, mod.ctx).run()
        for e in ev.events:
            if e.kind == "store":
                t = e.target.as_atom()
                if t and t[0] == "sub" and t[1].key() in names:
                    out.setdefault(t[1].key(), []).append((qual, P.atom(("tuple", tuple(t[2]))) if len(t[2]) != 1 else t[2][0], e))
                elif t and t[0] == "sub" and t[1].as_atom() and t[1].as_atom()[0] == "attr" and t[1].as_atom()[2] in cn \
                        and t[1].as_atom()[1].key() in ("self", "cls", cls):
                    out.setdefault(f"{cls}.{t[1].as_atom()[2]}", []).append((qual, P.atom(("tuple", tuple(t[2]))) if len(t[2]) != 1 else t[2][0], e))
    return out


def decorator_caches(mod):
    out = []
    for qual, fn in mod.funcs.items():
        for d in fn.decorator_list:
            txt = ast.unparse(d)
            if any(w in txt for w in ("lru_cache", "functools.cache", "memoize", "cached")) or txt in ("cache",):
                if "cached_property" in txt:
                    continue
                out.append((qual, fn, txt))
    return out


def reads_external_state(mod, fn) -> bool:
    src = ast.unparse(fn)
    return any(w in src for w in ("read_text", "read_bytes", "open(", "np.load", "numpy.load", "Path(", ".read("))


# ------------------------------------------------------------------------------------------------ scope rule
def AnalysisErrorProxy(msg):
    from .core import AnalysisError
    return AnalysisError(msg)


def _self_attrs(term: P):
    return {a[2] for a in find_atoms(term, lambda a: a[0] == "attr" and a[1].key() == "self")}


def _names(term: P, params):
    out = set()
    for a in find_atoms(term, lambda a: a[0] == "name"):
        if a[1] in params:
            out.add(a[1])
    return out


LOSSY = {"floor", "ceil", "round", "int", "len", "numpy.floor", "numpy.ceil", "numpy.round", "numpy.rint", "numpy.trunc", "numpy.sign", "type", "id",
         "numpy.shape", "numpy.size", "bool", "abs", "numpy.abs", "hash", "numpy.fix",
         "sorted", "set", "frozenset", "numpy.unique", "numpy.sort", "collections.Counter", "sum", "numpy.sum", "max", "min", "numpy.max", "numpy.min",
         ".sum", ".max", ".min", ".mean", "numpy.mean", "numpy.linalg.norm",
         "numpy.bincount", "numpy.histogram", "numpy.count_nonzero", "numpy.any", "numpy.all", "any", "all", "numpy.prod", ".prod", ".any", ".all",
         "numpy.median", "numpy.argmax", "numpy.argmin", ".argmax", ".argmin", "numpy.argsort", ".argsort", "numpy.trace", "numpy.linalg.det",
         "numpy.ptp", ".ptp", "numpy.std", ".std", "numpy.var", ".var", "numpy.average"}


def _drop_lossy(term: P) -> P:
    """Replace every sub-term under a many-to-one function by an opaque constant: what is left is what the key determines."""
    m = {}
    for a in find_atoms(term, lambda a: (a[0] == "call" and (call_name(a) in LOSSY)) or (a[0] == "attr" and a[2] in ("shape", "size", "ndim", "dtype"))
                        or (a[0] == "bin" and a[1] in ("FloorDiv", "Mod"))):
        m[a] = P.atom(("const", "<lossy>"))
    return term.subs(m) if m else term


def _numeric_type_tests(mod, fn, pn, depth=0):
    """Does fn - or a function of this module it hands the parameter pn to - branch on isinstance(pn, <numeric type>)?"""
    for n in ast.walk(fn):
        if isinstance(n, ast.Call) and isinstance(n.func, ast.Name) and n.func.id == "isinstance" and len(n.args) == 2 \
                and isinstance(n.args[0], ast.Name) and n.args[0].id == pn and any(w in ast.unparse(n.args[1]) for w in ("float", "int", "bool", "complex", "Number")):
            return True
        if depth < 2 and isinstance(n, ast.Call) and isinstance(n.func, ast.Name) and n.func.id in mod.funcs and n.func.id != fn.name:
            callee = mod.funcs[n.func.id]
            for k, a in enumerate(n.args):
                if isinstance(a, ast.Name) and a.id == pn and k < len(callee.args.args):
                    if _numeric_type_tests(mod, callee, callee.args.args[k].arg, depth + 1):
                        return True
    return False


def _cache_findings(mod, rel, fx=None):
    """[(qualname, node, fingerprint, ok, expected, found)] for module-level and decorator caches of one module."""
    out = []
    for name, entries in module_caches(mod).items():
        for qual, key, e in entries:
            fn = mod.funcs[qual]
            params = {a.arg for a in fn.args.args + fn.args.kwonlyargs} - {"self", "cls"}
            deps = {"self." + x for x in _self_attrs(e.value)} | _names(e.value, params)
            have = {"self." + x for x in _self_attrs(_drop_lossy(key))} | _names(_drop_lossy(key), params)
            ext = reads_external_state(mod, fn)
            missing = sorted(deps - have)
            # a key that is the argument itself compares 1, 1.0 and True equal: when the cached value depends on the argument's type
            # (isinstance tests in the function or in the helper the argument is handed to) the type belongs in the key
            for pn in sorted(params):
                in_key = any(a[0] == "name" and a[1] == pn for a in ([key.as_atom()] if key.as_atom() else []) + list(seq_items(key) and [x.as_atom() for x in seq_items(key) if x.as_atom()] or []))
                typed = f"type({pn})" in key.key() or f"{pn}.__class__" in key.key()
                if in_key and not typed and _numeric_type_tests(mod, fn, pn):
                    missing.append(f"type({pn}) (1, 1.0 and True are one key but are treated differently)")
            out.append((qual, e.node, f"modcache:{name}", not missing and not ext,
                        f"a key built from everything the cached value is computed from ({sorted(deps)})",
                        f"{name}[{str(key)[:80]}] omits {missing}" + ("; the function reads external state" if ext else "")))
    for qual, fn, txt in decorator_caches(mod):
        is_method = bool(fn.args.args) and fn.args.args[0].arg in ("self",)
        ext = reads_external_state(mod, fn)
        why = []
        if ext:
            why.append("the function reads external state (a file) that can change between calls")
        if is_method:
            cls = qual.rsplit(".", 1)[0]
            reads = read_attrs(mod, cls, fn.name)
            eqfn = mod.funcs.get(f"{cls}.__eq__")
            hashfn = mod.funcs.get(f"{cls}.__hash__")
            keyed = set()
            for f in (eqfn, hashfn):
                if f is not None:
                    keyed |= read_attrs(mod, cls, f.name)
            if eqfn is not None or hashfn is not None:
                miss = sorted(reads - keyed)
                if miss:
                    why.append(f"the cache key (self via __eq__/__hash__) ignores attributes the method reads: {miss[:6]}")
            else:
                fx = fx or Effects(None)
                writers = []
                for m in mod.methods(cls):
                    if m.name in ("__init__", fn.name) or is_classmethod(m):
                        continue
                    try:
                        ws = [w for w in Effects(_RepoOf(mod, rel)).method_writes(rel, cls, m.name) if w.attr in reads]
                    except Exception:
                        ws = []
                    if ws:
                        writers.append(m.name)
                if writers:
                    why.append(f"instances are keyed by identity but {writers[:4]} change attributes the method reads")
        # the cached object is shared by every caller: it must be immutable (or the cache hands out copies)
        try:
            from .rules.generic import returns_mutable, inline_single_return_hook
            fev = Ev(fn, mod.ctx).run()
            kinds = [returns_mutable(getattr(mod, "repo", None), mod, r.value) for r in fev.returns if r.value is not None]
        except Exception:
            kinds = [None]
        frozen = False
        if any(k is True for k in kinds):
            # the function hands out an array it has made read-only:  x.setflags(write=False) / x.flags.writeable = False before return x
            rnames = {r.value.id for r in ast.walk(fn) if isinstance(r, ast.Return) and isinstance(r.value, ast.Name)}
            for n in ast.walk(fn):
                if isinstance(n, ast.Call) and isinstance(n.func, ast.Attribute) and n.func.attr == "setflags" and isinstance(n.func.value, ast.Name) \
                        and n.func.value.id in rnames and any(k.arg == "write" and isinstance(k.value, ast.Constant) and k.value.value is False for k in n.keywords):
                    frozen = True
                if isinstance(n, ast.Assign) and len(n.targets) == 1 and ast.unparse(n.targets[0]).endswith(".flags.writeable") \
                        and isinstance(n.value, ast.Constant) and n.value.value is False and ast.unparse(n.targets[0]).split(".")[0] in rnames:
                    frozen = True
        if any(k is True for k in kinds) and not frozen:
            why.append("the cached value is a mutable array/list handed to every caller: one caller's in-place change alters all later results")
        elif any(k is None for k in kinds) and not why:
            raise AnalysisErrorProxy(f"{rel}:{qual}: cannot decide whether the value cached by @{txt} is immutable")
        out.append((qual, fn, "deco:" + txt.split("(")[0], not why, "no result cache in front of state that can change", "; ".join(why) or txt))
    return out


class _RepoOf:
    """Minimal repo facade for Effects when only one module is at hand."""

    def __init__(self, mod, rel):
        self._m = {rel: mod}

    def module(self, rel):
        return self._m[rel]


_SELFCHECK = '''
from functools import lru_cache
_C = {}
class K:
    def f(self):
        key = (self.a,)
        if key not in _C:
            _C[key] = g(self.a, self.b)
        return _C[key]
    def m(self):
        if not hasattr(self, "_m"):
            self._m = h(self.a)
        return self._m
    def set_a(self, a):
        self.a = a
@lru_cache(maxsize=2)
def load(path):
    return open(path).read()
def build(data, start=Thing(1)):
    start.items = data
    return start
'''


def mutable_default_findings(repo, mod, rel):
    """[(qualname, node, param, how)] : a default argument that is one object shared by all calls (a constructed object, list, dict,
    set) and that the function modifies - state kept between calls through the default."""
    from .effects import param_mutations
    out = []
    for qual, fn in mod.funcs.items():
        args = fn.args
        pos = args.posonlyargs + args.args
        pairs = list(zip(pos[len(pos) - len(args.defaults):], args.defaults)) + [(a, d) for a, d in zip(args.kwonlyargs, args.kw_defaults) if d is not None]
        shared = [(a.arg, d) for a, d in pairs if isinstance(d, (ast.Call, ast.List, ast.Dict, ast.Set, ast.ListComp, ast.DictComp))
                  and not (isinstance(d, ast.Call) and isinstance(d.func, ast.Name) and d.func.id in ("tuple", "frozenset", "float", "int", "str", "bool"))]
        if not shared:
            continue
        try:
            muts = param_mutations(repo, mod, qual)
        except Exception:   # noqa: BLE001
            muts = {}
        for name, d in shared:
            if name in muts:
                out.append((qual, fn, name, f"default {ast.unparse(d)[:40]} is created once and modified by the function: {muts[name][0]}"))
    return out


def selfcheck():
    """The detectors must fire on a tiny embedded positive example on every run (expected count on the real tree is zero)."""
    from .core import Module
    import ast as _ast
    tree = _ast.parse(_SELFCHECK)
    mod = Module(None, "selfcheck.py", "<selfcheck>", _SELFCHECK, tree)
    f = _cache_findings(mod, "<selfcheck>")
    bad = {x[2] for x in f if not x[3]}
    memos = instance_memos(mod, "K")
    md = mutable_default_findings(None, mod, "<selfcheck>")
    return {"modcache:_C", "deco:lru_cache"} <= bad and "_m" in memos and [x[2] for x in md] == ["start"], (sorted(bad), sorted(memos), [x[2] for x in md])


def cache_scope(chk, rid, modules=(), classes=(), what="the property's code path"):
    """Generic G4 obligations for a property: no module-level or decorator cache with an incomplete key in `modules`;
    every instance memo of `classes` [(rel, cls, allow, attr_types, state)] is dropped by every method that changes what it reads."""
    ok, info = selfcheck()
    chk.ob(rid, "sa/memo.py", "selfcheck", "the cache detectors fire on the embedded positive example (module cache, decorator cache, instance memo)",
           ok, fingerprint="selfcheck", found=str(info), nontrivial=False)
    for rel in modules:
        mod = chk.repo.module(rel)
        f = _cache_findings(mod, rel)
        for qual, node, fp, good, exp, found in f:
            chk.ob(rid, rel, qual, "a cache shared between calls/instances is keyed by everything its value depends on", good, node=node,
                   fingerprint=fp, expected=exp, found=found)
        for qual, node, pname, how in mutable_default_findings(chk.repo, mod, rel):
            chk.ob(rid, rel, qual, "no state is kept between calls through a default argument (a default object is created once; modifying it "
                   "changes what every later call - and every object built from it - sees)", False, node=node, fingerprint=f"mutable-default:{pname}",
                   expected="None as default and a fresh object per call", found=how)
        chk.ob(rid, rel, "<module>", f"inventory: {len(f)} module-level / decorator caches on {what}", True, fingerprint="inventory",
               nontrivial=False)
        chk.saw(rel, "<module caches>")
    for item in classes:
        rel, cls = item[0], item[1]
        allow = item[2] if len(item) > 2 else {}
        attr_types = item[3] if len(item) > 3 else None
        state = item[4] if len(item) > 4 else None
        memos = class_memo_discipline(chk, rid, rel, cls, allow, attr_types, state)
        chk.ob(rid, rel, cls, f"inventory: instance memos {sorted(memos)} (allow-listed: {sorted(allow)})", True, fingerprint="memo-inventory",
               nontrivial=False)
