#!/venv/bin/python
"""Maintenance helper (never run by a check): append an entry to known_findings.json.
usage: kf_add.py fixed|open PROPERTY RULE MODULE FUNCTION FINGERPRINT COMMIT WHAT"""
import json, sys, os
p = os.path.join(os.path.dirname(os.path.abspath(__file__)), "known_findings.json")
d = json.load(open(p)) if os.path.exists(p) else {"findings": []}
status, prop, rule, module, function, fp, commit, what = sys.argv[1:9]
line = (f"fixed: property={prop} {commit} {what}" if status == "fixed" else f"open: property={prop} {what}")
d["findings"].append({"record": line, "status": status, "property": prop, "rule": rule, "module": module,
                      "function": function, "fingerprint": fp, "commit": commit if status == "fixed" else None, "what": what})
json.dump(d, open(p, "w"), indent=1)
