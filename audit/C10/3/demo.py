"""C10: a crystal in a non-tabulated space-group setting cannot be read back from the .res it writes.

Crystal.from_cif_data explicitly supports non-standard settings (it keeps the listed
symmetry operations and logs 'Initializing non-standard spacegroup setting').  Such a
crystal writes a .res without complaint, but Crystal.from_shelx_string has no such
fallback: SpaceGroup.from_symmetry_operations raises, so the file chmpy wrote is
unreadable by chmpy.  (CIF round trip of the same crystal works.)
"""
import sys, logging
import numpy as np
logging.disable(logging.CRITICAL)
from chmpy.crystal import Crystal

cif = """data_cm1
_symmetry_space_group_name_H-M 'C -1'
_symmetry_Int_Tables_number 2
_cell_length_a 8.0
_cell_length_b 6.0
_cell_length_c 7.0
_cell_angle_alpha 85
_cell_angle_beta 95
_cell_angle_gamma 100
loop_
_symmetry_equiv_pos_as_xyz
x,y,z
-x,-y,-z
1/2+x,1/2+y,z
1/2-x,1/2-y,-z
loop_
_atom_site_label
_atom_site_type_symbol
_atom_site_fract_x
_atom_site_fract_y
_atom_site_fract_z
C1 C 0.1 0.2 0.3
"""
c = Crystal.from_cif_string(cif)
ops = sorted(str(s) for s in c.symmetry_operations)
print("loaded:", c.space_group, "ops:", ops)

c_cif = Crystal.from_cif_string(c.to_cif_string())
print("CIF round trip  :", c_cif.space_group, sorted(str(s) for s in c_cif.symmetry_operations) == ops)

res = c.to_shelx_string()
print(res)
bad = False
try:
    c_res = Crystal.from_shelx_string(res)
    ops2 = sorted(str(s) for s in c_res.symmetry_operations)
    print("RES round trip  :", c_res.space_group, ops2 == ops)
    bad = ops2 != ops or c_res.space_group.international_tables_number != 2
except Exception as e:
    print("RES round trip FAILED:", repr(e).split("\\n")[0])
    bad = True
if bad:
    print("VIOLATION: .res written for this crystal does not read back to the same space group")
    sys.exit(1)
print("ok")
