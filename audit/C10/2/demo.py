"""C10: CIF round trip breaks when the crystal carries an empty-string CIF item.

A CIF containing a legitimate empty quoted value (e.g. `_chemical_name_common ''`)
loads fine.  Cif.to_string then writes the item as `_chemical_name_common ` with
nothing after the name; on re-reading, Cif.parse_data_name takes the *next line*
as the value and skips it, so the following data item (here _cell_length_a, or a
`loop_` header) is swallowed.
"""
import sys, logging
import numpy as np
logging.disable(logging.CRITICAL)
from chmpy.crystal import Crystal

def make(order):
    head = {
        "before_cell": "_chemical_name_common ''\n",
        "before_loop": "",
    }[order]
    tail = {
        "before_cell": "",
        "before_loop": "_exptl_crystal_description \"\"\n",
    }[order]
    return f"""data_test
_symmetry_space_group_name_H-M 'P 21/c'
_symmetry_Int_Tables_number 14
{head}_cell_length_a 5.1
_cell_length_b 6.2
_cell_length_c 7.3
_cell_angle_alpha 90
_cell_angle_beta 101.5
_cell_angle_gamma 90
{tail}loop_
_symmetry_equiv_pos_as_xyz
x,y,z
-x,1/2+y,1/2-z
-x,-y,-z
x,1/2-y,1/2+z
loop_
_atom_site_label
_atom_site_type_symbol
_atom_site_fract_x
_atom_site_fract_y
_atom_site_fract_z
_atom_site_occupancy
C1 C 0.11 0.22 0.33 1.0
O1 O 0.61 0.72 0.83 0.5
"""

bad = False
for order in ("before_cell", "before_loop"):
    c = Crystal.from_cif_string(make(order))
    out = c.to_cif_string()
    print(f"--- case {order}: loaded {c}, cell {c.unit_cell.parameters}")
    print("\n".join(out.splitlines()[:6]), "\n...")
    try:
        c2 = Crystal.from_cif_string(out)
        same = (
            np.allclose(c2.unit_cell.parameters, c.unit_cell.parameters)
            and c2.space_group.international_tables_number == 14
            and len(c2.asymmetric_unit) == len(c.asymmetric_unit)
            and list(c2.asymmetric_unit.labels) == list(c.asymmetric_unit.labels)
            and np.allclose(c2.asymmetric_unit.positions, c.asymmetric_unit.positions)
        )
        print("re-read:", c2, c2.space_group, c2.asymmetric_unit.labels, "same structure:", same)
        if not same:
            bad = True
    except Exception as e:
        print("re-read FAILED:", repr(e))
        bad = True
if bad:
    print("VIOLATION: CIF written by chmpy for a crystal read from a CIF with an empty-string item cannot be read back to the same structure")
    sys.exit(1)
print("ok")
