"""C10: POSCAR round trip duplicates an atom on a special position at the cell boundary.

unit_cell_atoms wraps the symmetry images into [0,1) and then merges coincident images
with a *non-periodic* KDTree.  An atom on an inversion centre/axis through the origin
whose coordinate carries a little noise (here 2e-5, the last digit of a typical CIF)
has images at +eps and 1-eps, which are 'far apart' for the tree, so both are written:
the POSCAR has two atoms on top of each other.  The same noise about a centre at 1/2
is merged correctly, which shows the intent.
"""
import sys, logging
import numpy as np
logging.disable(logging.CRITICAL)
from chmpy.crystal import Crystal, SpaceGroup, UnitCell, AsymmetricUnit
from chmpy.core.element import Element

uc = UnitCell.from_lengths_and_angles([5.1, 6.2, 7.3], [81.0, 95.0, 103.0], unit="degrees")

def n_after_roundtrip(pos):
    c = Crystal(uc, SpaceGroup(2), AsymmetricUnit([Element["Cu"]], np.array([pos])))
    back = Crystal.from_vasp_string(c.to_poscar_string())
    # independent count: images under {1, -1}, periodic minimum-image distance in Angstrom
    imgs = [np.array(pos) % 1.0, (-np.array(pos)) % 1.0]
    d = imgs[0] - imgs[1]
    d -= np.round(d)
    dist = np.linalg.norm(d @ uc.direct)
    expected = 1 if dist < 1e-2 else 2
    return expected, len(back.asymmetric_unit), dist, back

bad = False
for pos in ([0.50002, 0.5, 0.5], [0.00002, 0.5, 0.5], [1e-13, 0.0, 0.0]):
    exp, got, dist, back = n_after_roundtrip(pos)
    print(f"Cu at {pos} in P-1: images {dist:.2e} A apart -> expected {exp} atom(s), POSCAR round trip gives {got}")
    if got != exp:
        print(back.asymmetric_unit.positions)
        bad = True
if bad:
    print("VIOLATION: POSCAR contains duplicate atoms for a site on a special position at the cell boundary")
    sys.exit(1)
print("ok")
