"""C10: SHELX .res round trip drops site occupancies.

Crystal.to_shelx_string writes atom lines as `label sfac x y z` only, although the
.res format (and chmpy's own reader, fmt/shelx.py:_parse_atom_line, token 6, as in
tests/test_files/acetic_acid.res) carries the site occupation factor after z.
"""
import sys, logging
import numpy as np
logging.disable(logging.CRITICAL)
from chmpy.crystal import Crystal, SpaceGroup, UnitCell, AsymmetricUnit
from chmpy.core.element import Element

uc = UnitCell.from_lengths_and_angles([5.1, 6.2, 7.3], [90, 101.5, 90], unit="degrees")
occ = np.array([1.0, 0.5, 0.25])
asym = AsymmetricUnit(
    [Element["C"], Element["O"], Element["O"]],
    np.array([[0.11, 0.22, 0.33], [0.61, 0.72, 0.83], [0.63, 0.70, 0.85]]),
    labels=["C1", "O1A", "O1B"],
    occupation=occ,
)
c = Crystal(uc, SpaceGroup(14), asym, titl="disorder")

res = c.to_shelx_string()
c_res = Crystal.from_shelx_string(res)
occ_res = np.asarray(c_res.asymmetric_unit.properties["occupation"], dtype=float)

# control: the CIF route keeps them
c_cif = Crystal.from_cif_string(c.to_cif_string())
occ_cif = np.asarray(c_cif.asymmetric_unit.properties["occupation"], dtype=float)

print(res)
print("original occupancies     :", occ)
print("after .res round trip    :", occ_res)
print("after .cif round trip    :", occ_cif)
bad = not np.allclose(occ_res, occ)
# second leg: a .res that has occupancies loses them on load -> save -> load
src = """TITL t
CELL 0.71073 5.1 6.2 7.3 90 101.5 90
LATT 1
SYMM -x,1/2+y,1/2-z
SFAC C O
C1 1 0.11 0.22 0.33 1.0
O1A 2 0.61 0.72 0.83 0.5
O1B 2 0.63 0.70 0.85 0.25
END
"""
a = Crystal.from_shelx_string(src)
b = Crystal.from_shelx_string(a.to_shelx_string())
print("res -> crystal occupancies:", a.asymmetric_unit.properties["occupation"])
print("res -> crystal -> res -> crystal:", b.asymmetric_unit.properties["occupation"])
bad = bad or not np.allclose(a.asymmetric_unit.properties["occupation"], b.asymmetric_unit.properties["occupation"])
if bad:
    print("VIOLATION: occupancies are not preserved by the SHELX .res round trip")
    sys.exit(1)
print("ok")
