"""C10: POSCAR round trip drops an element that shares a site with another element.

Substitutional disorder (two species on one crystallographic site, each with partial
occupancy) is routine in inorganic CIFs.  unit_cell_atoms merges sites that coincide
without looking at the element, keeps the first one and adds the occupancies, so the
second species disappears from the POSCAR (which is written from unit_cell_atoms).
"""
import sys, logging
import numpy as np
logging.disable(logging.CRITICAL)
from chmpy.crystal import Crystal

cif = """data_NaKCl
_symmetry_Int_Tables_number 225
_cell_length_a 5.9
_cell_length_b 5.9
_cell_length_c 5.9
_cell_angle_alpha 90
_cell_angle_beta 90
_cell_angle_gamma 90
loop_
_atom_site_label
_atom_site_type_symbol
_atom_site_fract_x
_atom_site_fract_y
_atom_site_fract_z
_atom_site_occupancy
Na1 Na 0 0 0 0.5
K1 K 0 0 0 0.5
Cl1 Cl 0.5 0.5 0.5 1.0
"""
c = Crystal.from_cif_string(cif)
print("loaded", c, "asymmetric unit:", [str(x) for x in c.asymmetric_unit.labels])

# independent enumeration of the unit-cell atoms, per element
exp = {}
for s in c.space_group.symmetry_operations:
    for z, p in zip(c.asymmetric_unit.atomic_numbers, c.asymmetric_unit.positions):
        q = np.round(((np.asarray(s.rotation) @ p + np.asarray(s.translation)) % 1.0), 6) % 1.0
        exp.setdefault(int(z), set()).add(tuple(q))
exp_counts = {z: len(v) for z, v in exp.items()}

poscar = c.to_poscar_string()
print("\n".join(poscar.splitlines()[:8]))
back = Crystal.from_vasp_string(poscar)
got_counts = {}
for z in back.asymmetric_unit.atomic_numbers:
    got_counts[int(z)] = got_counts.get(int(z), 0) + 1
print("expected atoms per element (Z: n):", exp_counts)
print("read back from POSCAR           :", got_counts)
if exp_counts != got_counts:
    print("VIOLATION: an element present in the crystal is missing after the POSCAR round trip")
    sys.exit(1)
print("ok")
