"""C10: POSCAR round trip loses atoms when the cell is large.

ext/vasp.py:poscar_string takes crystal.unit_cell_atoms(tolerance=1e-2); that routine
merges sites closer than `tolerance` measured in *fractional* coordinates (KDTree on
frac_pos).  0.01 of a 120 A axis is 1.2 A, 0.01 of the 1000 A box used by
Crystal.from_molecule is 10 A, so bonded atoms (different elements, full occupancy)
are 'merged' and vanish from the written POSCAR.
"""
import sys, logging
import numpy as np
logging.disable(logging.CRITICAL)
from chmpy.crystal import Crystal, SpaceGroup, UnitCell, AsymmetricUnit
from chmpy.core.element import Element
from chmpy import Molecule

def expected_atoms(c):
    """independent: apply every symop, wrap into the cell, drop exact (1e-6 A) duplicates of the same element"""
    out = []
    for s in c.space_group.symmetry_operations:
        for z, p in zip(c.asymmetric_unit.atomic_numbers, c.asymmetric_unit.positions):
            q = (np.asarray(s.rotation) @ p + np.asarray(s.translation)) % 1.0
            dup = False
            for z2, q2 in out:
                d = q - q2
                d -= np.round(d)
                if z2 == z and np.linalg.norm(d @ c.unit_cell.direct) < 1e-6:
                    dup = True
            if not dup:
                out.append((z, q))
    return out

bad = False
# (a) a water molecule in a 120 A cubic P1 cell (protein-sized cell)
uc = UnitCell.from_lengths_and_angles([120.0, 120.0, 120.0], [90, 90, 90], unit="degrees")
cart = np.array([[10.0, 10.0, 10.0], [10.96, 10.0, 10.0], [9.76, 10.93, 10.0]])
c = Crystal(uc, SpaceGroup(1), AsymmetricUnit([Element["O"], Element["H"], Element["H"]], uc.to_fractional(cart)), titl="water120")
back = Crystal.from_vasp_string(c.to_poscar_string())
exp = expected_atoms(c)
print("(a) 120 A cell: expected", sorted(int(z) for z, _ in exp), "read back", sorted(back.asymmetric_unit.atomic_numbers.tolist()))
bad |= len(exp) != len(back.asymmetric_unit)

# (b) the library's own molecule -> crystal route (1000 A box)
m = Molecule.from_arrays(np.array([8, 1, 1]), cart)
cm = Crystal.from_molecule(m)
poscar = cm.to_poscar_string()
backm = Crystal.from_vasp_string(poscar)
expm = expected_atoms(cm)
print(poscar)
print("(b) Crystal.from_molecule(water): expected", sorted(int(z) for z, _ in expm), "read back", sorted(backm.asymmetric_unit.atomic_numbers.tolist()))
bad |= len(expm) != len(backm.asymmetric_unit)

if bad:
    print("VIOLATION: POSCAR round trip does not reproduce the set of unit-cell atoms (atoms merged by a fractional-space tolerance)")
    sys.exit(1)
print("ok")
