"""C13 violation: a P1 supercell does not keep the atom count / density.

Crystal.unit_cell_atoms() merges sites closer than 1e-2 in FRACTIONAL units.  In an
n1 x n2 x n3 supercell one fractional unit is n times longer, so for a moderately large
supercell genuinely distinct bonded atoms (C-H, O-H ~ 1 Angstrom apart) of the P1
crystal are merged: the supercell crystal reports fewer atoms than (volume ratio) x
(atoms in the cell) and a lower density than the crystal it was made from.
Uses the library's own test structure r3c_example.cif (a = b = 34.45, c = 11.24 A).
"""
import sys
import os
import numpy as np
import chmpy
from chmpy.crystal import Crystal
from chmpy.core.element import Element

path = os.path.join(os.path.dirname(chmpy.__file__), "tests", "test_files", "r3c_example.cif")
c = Crystal.load(path)

# independent count of atoms per cell: orbit of every asymmetric-unit site, distinct
# images (modulo the lattice) separated by more than 0.05 Angstrom in CARTESIAN space
D = np.asarray(c.unit_cell.direct)
frac = np.asarray(c.asymmetric_unit.positions)
nums = np.asarray(c.asymmetric_unit.atomic_numbers)
n_cell = 0
mass_cell = 0.0
for x, z in zip(frac, nums):
    imgs = []
    for s in c.space_group.symmetry_operations:
        y = np.asarray(s.rotation) @ x + np.asarray(s.translation)
        y -= np.floor(y)
        dup = False
        for w in imgs:
            d = y - w
            d -= np.round(d)
            if np.linalg.norm(d @ D) < 0.05:
                dup = True
                break
        if not dup:
            imgs.append(y)
    n_cell += len(imgs)
    mass_cell += len(imgs) * Element[z].mass
vol = abs(np.linalg.det(D))
dens_ref = mass_cell / vol / 0.6022
print(f"original: atoms/cell independent={n_cell} library={len(c.unit_cell_atoms()['element'])}; "
      f"density independent={dens_ref:.6f} library={c.density:.6f}")

bad = 0
for size in [(1, 1, 1), (2, 2, 2), (3, 3, 3)]:
    p = c.as_P1_supercell(size)
    ratio = p.unit_cell.volume() / c.unit_cell.volume()
    expected = int(round(n_cell * ratio))
    n_asym = len(p.asymmetric_unit)
    n_uc = len(p.unit_cell_atoms()["element"])
    dens = p.density
    ok = (n_asym == expected) and (n_uc == expected) and abs(dens - dens_ref) < 1e-6 * dens_ref
    print(f"supercell {size}: volume ratio {ratio:.3f}, expected atoms {expected}, "
          f"asymmetric unit {n_asym}, unit_cell_atoms() {n_uc}, density {dens:.6f} "
          f"({'ok' if ok else 'WRONG'})")
    if not ok:
        bad += 1

if bad:
    print("\nVIOLATION: the P1 supercell crystal loses atoms (merged by the fractional "
          "1e-2 tolerance of unit_cell_atoms) and its density differs from the original.")
    sys.exit(1)
print("OK")
sys.exit(0)
