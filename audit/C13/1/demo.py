"""C13 violation: choose_trigonal_lattice() uses an improper (det < 0) change of basis,
so the converted crystal lives on a LEFT-handed set of axes.  as_P1()/as_P1_supercell()
(and any export of cell lengths/angles + fractional coordinates) of the converted crystal
then describes the mirror image of the structure.  For the chiral groups R3 (146) and
R32 (155) the mirror image is a different arrangement of atoms (the other enantiomorph).
"""
import sys
import itertools
import numpy as np
from chmpy.crystal import Crystal, SpaceGroup, UnitCell, AsymmetricUnit
from chmpy.core.element import Element


def std_direct(lengths, angles):
    "conventional right-handed cartesian frame (a along x, b in xy plane)"
    a, b, c = lengths
    ca, cb, cg = np.cos(angles)
    sg = np.sin(angles[2])
    v = a * b * c * np.sqrt(1 - ca * ca - cb * cb - cg * cg + 2 * ca * cb * cg)
    return np.array(
        [[a, 0, 0], [b * cg, b * sg, 0], [c * cb, c * (ca - cb * cg) / sg, v / (a * b * sg)]]
    )


def expand(lengths, angles, symops, frac, nums):
    "independent expansion of asymmetric unit -> (elements, cartesian) in right-handed frame"
    D = std_direct(lengths, angles)
    f, e = [], []
    for s in symops:
        f.append(frac @ np.asarray(s.rotation).T + np.asarray(s.translation))
        e.append(nums)
    f = np.vstack(f)
    f -= np.floor(f)
    return np.hstack(e), f, D


def cluster(elements, frac, D, element=6, k=6):
    "vectors from the first atom of `element` to its k nearest neighbours, sorted by distance"
    pts, els = [], []
    for q in itertools.product(range(-2, 3), repeat=3):
        pts.append((frac + np.asarray(q)) @ D)
        els.append(elements)
    pts = np.vstack(pts)
    els = np.hstack(els)
    p0 = (frac[np.where(elements == element)[0][0]]) @ D
    d = np.linalg.norm(pts - p0, axis=1)
    order = np.argsort(d)[1:60]
    # keep only neighbours whose distance is unique (symmetry makes some pairs equidistant)
    o = [i for i in order if np.sum(np.abs(d[order] - d[i]) < 1e-3) == 1][:k]
    o = np.asarray(o)
    assert len(o) == k
    return pts[o] - p0, d[o], els[o]


def handedness_of_map(A, B):
    "A, B (k,3) corresponding vectors; the linear map A -> B is orthogonal, return its determinant"
    M, *_ = np.linalg.lstsq(A, B, rcond=None)
    resid = np.abs(A @ M - B).max()
    return np.linalg.det(M), resid


failures = 0
pos = np.array([[0.11, 0.27, 0.43], [0.35, 0.08, 0.71]])
for number in (146, 155):
    for start in ("H", "R"):
        other = "R" if start == "H" else "H"
        uc = (
            UnitCell.hexagonal(11.3, 7.9)
            if start == "H"
            else UnitCell.rhombohedral(7.3, np.radians(69.0))
        )
        c = Crystal(
            uc,
            SpaceGroup(number, choice=start),
            AsymmetricUnit([Element["C"], Element["O"]], pos.copy()),
        )
        # reference arrangement from the ORIGINAL description
        e, f, D = expand(
            c.unit_cell.lengths, c.unit_cell.angles, c.space_group.symmetry_operations,
            np.asarray(c.asymmetric_unit.positions), np.asarray(c.asymmetric_unit.atomic_numbers),
        )
        A, dA, eA = cluster(e, f, D)

        # control: P1 expansion of the untouched crystal
        p = c.as_P1()
        B, dB, eB = cluster(
            np.asarray(p.asymmetric_unit.atomic_numbers),
            np.asarray(p.asymmetric_unit.positions) % 1.0,
            std_direct(p.unit_cell.lengths, p.unit_cell.angles),
        )
        det0, r0 = handedness_of_map(A, B)

        c.choose_trigonal_lattice(other)
        det_cell = np.linalg.det(c.unit_cell.direct)
        p = c.as_P1()
        B, dB, eB = cluster(
            np.asarray(p.asymmetric_unit.atomic_numbers),
            np.asarray(p.asymmetric_unit.positions) % 1.0,
            std_direct(p.unit_cell.lengths, p.unit_cell.angles),
        )
        det1, r1 = handedness_of_map(A, B)
        same_dists = np.allclose(dA, dB, atol=1e-6) and np.all(eA == eB)
        print(
            f"SG {number} {start}->{other}: det(unit_cell.direct) after conversion = {det_cell:+.2f}; "
            f"environment of C1 in as_P1(): distances equal={same_dists}, "
            f"rigid map original->P1 has det {det1:+.3f} (residual {r1:.1e}); "
            f"control without conversion det {det0:+.3f}"
        )
        if det0 < 0 or not same_dists or det1 < 0 or r1 > 1e-6:
            failures += 1

if failures:
    print(
        "\nVIOLATION: after choose_trigonal_lattice() the P1 expansion is the mirror image "
        "(improper map, det = -1) of the original chiral structure: atoms of the two "
        "descriptions cannot be superimposed by any rotation + translation."
    )
    sys.exit(1)
print("OK: P1 expansion after a change of trigonal setting is congruent with the original")
sys.exit(0)
