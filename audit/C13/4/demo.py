"""C13 violation (substitutional disorder): as_P1() drops every atom of the second element
sharing a crystallographic site.

(Mg0.5 Fe0.5)O rock salt: Mg and Fe occupy the same 4a site with occupancy 0.5 each
(the normal CIF description of a solid solution).  unit_cell_atoms() merges sites that
are closer than the tolerance WITHOUT looking at the element, keeping only the first one,
so the P1 expansion contains Mg and O only: the Fe atoms of the original description have
no counterpart of the same element in the P1 description (and the formula changes).
"""
import sys
import numpy as np
from chmpy.crystal import Crystal, SpaceGroup, UnitCell, AsymmetricUnit
from chmpy.core.element import Element

asym = AsymmetricUnit(
    [Element["Mg"], Element["Fe"], Element["O"]],
    np.array([[0.0, 0.0, 0.0], [0.0, 0.0, 0.0], [0.5, 0.5, 0.5]]),
    occupation=[0.5, 0.5, 1.0],
)
c = Crystal(UnitCell.cubic(4.25), SpaceGroup(225), asym)

# independent expansion of the original description
D = np.asarray(c.unit_cell.direct)
ref = []
for x, z in zip(np.asarray(c.asymmetric_unit.positions), c.asymmetric_unit.atomic_numbers):
    for s in c.space_group.symmetry_operations:
        y = np.asarray(s.rotation) @ x + np.asarray(s.translation)
        y -= np.floor(y)
        if not any(zz == z and np.linalg.norm(((y - w) - np.round(y - w)) @ D) < 1e-3 for zz, w in ref):
            ref.append((z, y))

p = c.as_P1()
pf = np.asarray(p.asymmetric_unit.positions)
pz = np.asarray(p.asymmetric_unit.atomic_numbers)
Dp = np.asarray(p.unit_cell.direct)

missing = {}
for z, y in ref:
    d = pf - y
    d -= np.round(d)
    hit = np.any((np.linalg.norm(d @ Dp, axis=1) < 1e-3) & (pz == z))
    if not hit:
        missing[Element[z].symbol] = missing.get(Element[z].symbol, 0) + 1

print("original asymmetric unit :", c.asymmetric_unit.formula)
print("atoms in the cell (independent expansion):",
      {Element[z].symbol: sum(1 for zz, _ in ref if zz == z) for z in sorted(set(z for z, _ in ref))})
print("as_P1() contents         :", p.asymmetric_unit.formula)
print("original atoms with no same-element counterpart in P1:", missing)
if missing:
    print("\nVIOLATION: the P1 crystal does not contain the Fe atoms of the original structure")
    sys.exit(1)
print("OK")
sys.exit(0)
