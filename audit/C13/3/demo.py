"""C13 violation: switching hexagonal <-> rhombohedral axes changes atom count and density
when a site on the 3-fold axis is given with ordinary CIF rounding (0.3333, 0.6667, z).

In the R-centred hexagonal cell the centring translations move that site to
(0.99997, 0.00003, z+1/3); its 3-fold images land within 1e-4 of each other modulo the
lattice but next to DIFFERENT corners of the cell.  Crystal.unit_cell_atoms() wraps
coordinates into [0,1) and then searches for duplicates with a non-periodic KDTree, so
those images are not merged in the hexagonal description, while in the rhombohedral
description (no wrap) they are.  The two descriptions of the same structure therefore
have atom counts that are not in the 3:1 volume ratio and different densities.
"""
import sys
import numpy as np
from chmpy.crystal import Crystal, SpaceGroup, UnitCell, AsymmetricUnit
from chmpy.core.element import Element


def orbit_count(c, tol=0.05):
    "independent atoms-per-cell: distinct images modulo the lattice, cartesian tolerance (Angstrom)"
    D = np.asarray(c.unit_cell.direct)
    total, mass = 0, 0.0
    for x, z in zip(np.asarray(c.asymmetric_unit.positions), c.asymmetric_unit.atomic_numbers):
        imgs = []
        for s in c.space_group.symmetry_operations:
            y = np.asarray(s.rotation) @ x + np.asarray(s.translation)
            if not any(np.linalg.norm(((y - w) - np.round(y - w)) @ D) < tol for w in imgs):
                imgs.append(y)
        total += len(imgs)
        mass += len(imgs) * Element[z].mass
    return total, mass / abs(np.linalg.det(D)) / 0.6022


bad = 0
for number in (146, 148, 155, 160, 161, 166, 167):
    asym = AsymmetricUnit(
        [Element["N"], Element["C"]],
        np.array([[0.3333, 0.6667, 0.1234], [0.1210, 0.2730, 0.4310]]),
    )
    c = Crystal(UnitCell.hexagonal(10.3, 14.9), SpaceGroup(number, choice="H"), asym)
    nH_ref, dH_ref = orbit_count(c)
    nH, dH = len(c.unit_cell_atoms()["element"]), c.density
    c.choose_trigonal_lattice("R")
    nR_ref, dR_ref = orbit_count(c)
    nR, dR = len(c.unit_cell_atoms()["element"]), c.density
    ok = (nH == 3 * nR) and abs(dH - dR) < 1e-6 * dR and nH == nH_ref and nR == nR_ref
    print(
        f"SG {number}: hexagonal cell {nH} atoms (expected {nH_ref}), density {dH:.5f} | "
        f"rhombohedral cell {nR} atoms (expected {nR_ref}), density {dR:.5f} | "
        f"reference density {dH_ref:.5f}/{dR_ref:.5f}  {'ok' if ok else 'WRONG'}"
    )
    if not ok:
        bad += 1

if bad:
    print("\nVIOLATION: atom count does not scale with the cell volume (3:1) and the density "
          "changes when the same crystal is re-expressed on the other trigonal axes.")
    sys.exit(1)
print("OK")
sys.exit(0)
