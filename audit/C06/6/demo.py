"""C06 / "every vertex inside a grid cell whose corner values straddle the level":
CubeData.isosurface() meshes the cube-file volume but places the vertices at
index * |basis vector|, ignoring the grid origin (and the direction of the basis
vectors).  In the frame in which the cube's own grid points (CubeData.xyz) and
atoms (CubeData.positions) live, the surface is displaced by -volume_origin: the
vertices are not on the level and the surface does not even contain the atom the
density is centred on.
"""
import sys
import numpy as np
from chmpy.fmt.cube import CubeData

# a Gaussian blob centred on one atom at the coordinate origin; grid origin at
# (-4,-4,-4) bohr, 17^3 points, step 0.5 bohr, axis-aligned.
n, h, o = 17, 0.5, -4.0
idx = np.arange(n)
X, Y, Z = np.meshgrid(o + h * idx, o + h * idx, o + h * idx, indexing="ij")
rho = np.exp(-(X ** 2 + Y ** 2 + Z ** 2) / 2.0)
lines = ["demo cube", "gaussian", f"1 {o} {o} {o}",
         f"{n} {h} 0.0 0.0", f"{n} 0.0 {h} 0.0", f"{n} 0.0 0.0 {h}",
         "2 2.0 0.0 0.0 0.0"]
lines += [" ".join(f"{x:.6e}" for x in rho[i, j]) for i in range(n) for j in range(n)]
cube = CubeData.from_string("\n".join(lines) + "\n")

level = 0.3
mesh = cube.isosurface(isovalue=level)
v = np.asarray(mesh.vertices)

# independent evaluation of the same analytic field in the cube's own frame (angstrom)
bohr = 0.529177210903
def field(p_ang):
    p = p_ang / bohr
    return np.exp(-(p ** 2).sum(axis=1) / 2.0)

grid = cube.xyz
print("grid (CubeData.xyz) spans      ", grid.min(0).round(3), grid.max(0).round(3))
print("atom position                  ", cube.positions[0])
print("isosurface vertices span       ", v.min(0).round(3), v.max(0).round(3))
fv = field(v)
print(f"field at vertices: min {fv.min():.4f} max {fv.max():.4f} (requested level {level})")
fv_shift = field(v + cube.volume_origin)
print(f"field at vertices + volume_origin: min {fv_shift.min():.4f} max {fv_shift.max():.4f}")
inside_bbox = np.all((cube.positions[0] > v.min(0)) & (cube.positions[0] < v.max(0)))
print("atom inside the surface's bounding box:", bool(inside_bbox))
if np.abs(fv - level).max() > 0.05 or not inside_bbox:
    print("VIOLATION: cube isosurface is not located on the level set of the cube's field")
    sys.exit(1)
sys.exit(0)
