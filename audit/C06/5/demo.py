"""C06 / "meshes in the molecule's Cartesian frame, orientation determined by the
gradient direction": the `normals` member of the IsosurfaceMesh returned by
promolecule_density_isosurface / stockholder_weight_isosurface is left in the
mesher's (row, column, plane) = (y, x, z) component order, while the vertices
are converted to (x, y, z).  The returned normals therefore do not belong to the
returned surface: their x and y components are exchanged.
"""
import sys
import numpy as np
from chmpy import PromoleculeDensity, StockholderWeight
from chmpy.surface import promolecule_density_isosurface, stockholder_weight_isosurface

# a bent, clearly non x<->y symmetric "molecule" and one neighbour shell
els = np.array([8, 6, 6, 7, 1, 1])
pos = np.array([[0.0, 0.0, 0.0], [1.4, 0.3, 0.1], [2.6, 1.5, -0.2],
                [4.0, 1.6, 0.3], [1.3, -0.8, 0.4], [2.5, 2.4, -0.9]])
shifts = np.array([[sx, sy, sz] for sx in (-7, 0, 7) for sy in (-6, 0, 6)
                   for sz in (-5, 0, 5) if (sx, sy, sz) != (0, 0, 0)], float)
n_pos = np.vstack([pos + s for s in shifts])
n_els = np.tile(els, len(shifts))


def geometric_vertex_normals(v, f):
    fn = np.cross(v[f[:, 1]] - v[f[:, 0]], v[f[:, 2]] - v[f[:, 0]])
    vn = np.zeros_like(v)
    for k in range(3):
        np.add.at(vn, f[:, k], fn)
    return vn / np.linalg.norm(vn, axis=1)[:, None]


def minus_grad(fn, v, h=1e-2):
    g = np.zeros_like(v)
    for k in range(3):
        d = np.zeros(3)
        d[k] = h
        g[:, k] = fn(v + d) - fn(v - d)
    g = -g
    return g / np.linalg.norm(g, axis=1)[:, None]


pro = PromoleculeDensity((els, pos))
stock = StockholderWeight.from_arrays(els, pos, n_els, n_pos)
fail = False
for name, iso, field in (
    ("promolecule", promolecule_density_isosurface(pro, sep=0.2, smoothing=None, props=False),
     lambda p: pro.rho(p.astype(np.float32)).astype(float)),
    ("stockholder", stockholder_weight_isosurface(stock, sep=0.2, smoothing=None, props=False),
     lambda p: stock.weights(p.astype(np.float32)).astype(float)),
):
    v = np.asarray(iso.vertices, float)
    f = np.asarray(iso.faces)
    n = np.asarray(iso.normals, float)
    gn = geometric_vertex_normals(v, f)           # from the oriented triangles
    dg = minus_grad(field, v)                      # descent direction of the field
    a = np.einsum("ij,ij->i", n, gn).mean()
    b = np.einsum("ij,ij->i", n, dg).mean()
    a_sw = np.einsum("ij,ij->i", n[:, [1, 0, 2]], gn).mean()
    b_sw = np.einsum("ij,ij->i", n[:, [1, 0, 2]], dg).mean()
    print(f"{name}: <normals . triangle normals> = {a:.3f}, <normals . (-grad field)> = {b:.3f}"
          f"   | with x,y components exchanged: {a_sw:.3f}, {b_sw:.3f}")
    if a < 0.95 or b < 0.95:
        fail = True
if fail:
    print("VIOLATION: returned normals are not in the Cartesian frame of the returned vertices")
    sys.exit(1)
sys.exit(0)
