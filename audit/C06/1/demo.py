"""C06 / closed 2-manifold: a binary (0/1) volume contoured at level 0.5 gives a
non-manifold mesh (mesh edges shared by 4 triangles, doubly-covered flat sheets).

The level set stays away from the grid boundary (zero padded) and no sample
equals the level, yet the result is not a closed 2-manifold.  The same happens
for any field in which an ambiguous cell face has A*C == B*D for its corner
values (integer-valued data, uint8 images, labelled masks ...).
"""
import sys
from collections import Counter
import numpy as np
from chmpy.mc import marching_cubes


def edge_counts(faces):
    und, dirc = Counter(), Counter()
    for t in np.asarray(faces).tolist():
        if len(set(t)) < 3:
            continue
        for i in range(3):
            a, b = t[i], t[(i + 1) % 3]
            und[(min(a, b), max(a, b))] += 1
            dirc[(a, b)] += 1
    return und, dirc


def report(name, vol, level):
    v, f, _, _ = marching_cubes(vol, level)
    und, dirc = edge_counts(f)
    bad = {e: c for e, c in und.items() if c != 2}
    bad_dir = [e for e, c in dirc.items() if c != 1 or dirc.get((e[1], e[0]), 0) != 1]
    print(f"{name}: {len(v)} vertices, {len(f)} faces, "
          f"{len(bad)} edges not shared by exactly two triangles, "
          f"{len(bad_dir)} directed-edge violations")
    for e, c in list(bad.items())[:5]:
        print(f"    edge {e} used by {c} triangles: {v[e[0]]} - {v[e[1]]}")
    return len(bad) + len(bad_dir)


# minimal example: four voxels of a 3x3x3 core, zero padded to 5x5x5
core = np.zeros((3, 3, 3))
core[1, 0, 1] = core[1, 1, 2] = core[2, 1, 1] = core[2, 2, 2] = 1.0
vol = np.pad(core, 1)
nbad = report("4-voxel binary mask, level 0.5", vol, 0.5)

# control: the same mask with the ones replaced by 1.001 (no exact ties) is fine
nctrl = report("same mask scaled by 1.001 (control)", vol * 1.001, 0.5)

# random binary masks
rng = np.random.default_rng(0)
nrand = 0
for _ in range(50):
    m = np.pad((rng.random((8, 9, 10)) < 0.4).astype(float), 1)
    v, f, _, _ = marching_cubes(m, 0.5)
    und, _ = edge_counts(f)
    nrand += any(c != 2 for c in und.values())
print(f"random 8x9x10 binary masks with a non-manifold mesh: {nrand}/50")

if nbad or nrand:
    print("VIOLATION: isosurface of a binary volume is not a closed 2-manifold")
    sys.exit(1)
sys.exit(0)
