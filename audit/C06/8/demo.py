"""C06 / vertices lie in the grid cell whose corners straddle the level, mesh in the
Cartesian frame: Crystal.void_surface() (promolecule-density isosurface of the
unit cell) mis-scales its vertices.

grid_type='uc' (default): the density is sampled on np.meshgrid(x, y, z) (array
axes = (y, x, z)) but marching_cubes is given spacing=(sep_x, sep_y, sep_z), so
the y index is multiplied by the x spacing and vice versa before the columns are
exchanged.  For a cell with a != b the surface is stretched by a/b along x and
squeezed by b/a along y: it leaves the unit cell and is nowhere near the
requested isovalue.
grid_type='box': the vertices are returned relative to the box corner (the
corner is never added back).
"""
import sys
import numpy as np
from chmpy.crystal import Crystal
from chmpy import PromoleculeDensity
from chmpy.tests import TEST_FILES

c = Crystal.load(TEST_FILES["acetic_acid.cif"])        # a=13.31 b=4.10 c=5.75, orthorhombic
a, b, cc = c.unit_cell.lengths
iso = 0.002
atoms = c.slab(bounds=((-3, -3, -3), (3, 3, 3)))
dens = PromoleculeDensity((atoms["element"], atoms["cart_pos"]))   # independent evaluation of the field

fail = False
mesh = c.void_surface(separation=0.3, isovalue=iso)
v = np.asarray(mesh.vertices)
frac = c.to_fractional(v)
rho = dens.rho(v)
print(f"cell lengths {a} {b} {cc}")
print("uc grid : fractional vertex range", frac.min(0).round(3), frac.max(0).round(3))
print(f"uc grid : promolecule density at the vertices: median {np.median(rho):.2e}, "
      f"fraction within 50% of the isovalue {np.mean(np.abs(rho - iso) < 0.5 * iso):.2f}")
# undo the mixed-up spacings: x index was scaled by sep_y, y index by sep_x
fixed = c.to_cartesian(np.c_[frac[:, 0] * b / a, frac[:, 1] * a / b, frac[:, 2]])
rho_fixed = dens.rho(fixed)
print(f"          after exchanging the two spacings: median {np.median(rho_fixed):.2e}, "
      f"fraction within 50% {np.mean(np.abs(rho_fixed - iso) < 0.5 * iso):.2f}")
if frac.max() > 1.0 + 1e-6 or np.mean(np.abs(rho - iso) < 0.5 * iso) < 0.9:
    fail = True

corner = np.array([2.0, 1.0, 1.0])
mesh = c.void_surface(separation=0.3, isovalue=iso, grid_type="box",
                      box_corners=(tuple(corner), (8.0, 4.0, 5.0)))
v = np.asarray(mesh.vertices)
rho = dens.rho(v)
rho_shift = dens.rho(v + corner)
print("box grid: vertex range", v.min(0).round(2), v.max(0).round(2), "(box is [2,8]x[1,4]x[1,5])")
print(f"box grid: density at vertices median {np.median(rho):.2e}; at vertices + box corner {np.median(rho_shift):.2e}")
if np.mean(np.abs(rho - iso) < 0.5 * iso) < 0.9:
    fail = True

if fail:
    print("VIOLATION: void surface vertices are not on the requested level set")
    sys.exit(1)
sys.exit(0)
