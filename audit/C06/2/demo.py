"""C06 / vertices at the crossing point + closed manifold: the mesher is not
scale invariant.  It uses an *absolute* epsilon (FLT_EPSILON = 2.2e-16) in the
edge interpolation weights 1/(eps+|v|) and in the ambiguous-face test
|A*C - B*D| < eps.  For a field of small magnitude (|value-level| <~ 1e-8, e.g.
a density expressed in SI-like units, or a tail density at a tiny isovalue)
 (a) every ambiguous face is treated as an exact tie -> non-manifold mesh
     (edges shared by 4 triangles), although mesh(field*c, level*c) must be
     identical to mesh(field, level);
 (b) vertices are no longer at the linear crossing point of their grid edge
     (they drift towards the edge midpoint).
"""
import sys
from collections import Counter
import numpy as np
from chmpy.mc import marching_cubes


def nonmanifold_edges(faces):
    und = Counter()
    for t in np.asarray(faces).tolist():
        if len(set(t)) < 3:
            continue
        for i in range(3):
            a, b = t[i], t[(i + 1) % 3]
            und[(min(a, b), max(a, b))] += 1
    return sum(1 for c in und.values() if c != 2)


def max_crossing_error(vol, level, verts):
    """largest distance (in cells) between an edge vertex and the exact linear
    crossing of the float32 samples on that grid edge"""
    a = vol.astype(np.float32).astype(np.float64)
    worst = 0.0
    for p in verts:
        isint = np.abs(p - np.round(p)) < 1e-6
        if isint.sum() != 2:
            continue
        ax = int(np.where(~isint)[0][0])
        lo = np.round(p).astype(int)
        lo[ax] = int(np.floor(p[ax]))
        hi = lo.copy()
        hi[ax] += 1
        v0, v1 = a[tuple(lo)] - level, a[tuple(hi)] - level
        t = v0 / (v0 - v1)
        worst = max(worst, abs(lo[ax] + t - p[ax]))
    return worst


rng = np.random.default_rng(13)
fail = False

# (a) manifoldness of scaled noise fields
for scale in (1.0, 1e-9):
    nbad = 0
    for _ in range(100):
        b = np.pad(rng.standard_normal((8, 8, 8)), 1, constant_values=-5) * scale
        v, f, _, _ = marching_cubes(b, 0.0)
        nbad += nonmanifold_edges(f) > 0
    print(f"noise field * {scale:g}: {nbad}/100 meshes are not closed 2-manifolds")
    if nbad:
        fail = True

# (b) vertex placement on a smooth sphere-like field
g = np.arange(20) - 9.5
X, Y, Z = np.meshgrid(g, g, g, indexing="ij")
field = 7.3 - np.sqrt(X ** 2 + 1.3 * Y ** 2 + 0.8 * Z ** 2)
for scale in (1.0, 1e-13):
    v, f, _, _ = marching_cubes(field * scale, 0.0)
    err = max_crossing_error(field * scale, 0.0, v)
    print(f"smooth field * {scale:g}: max |vertex - linear crossing| = {err:.3e} cells")
    if err > 1e-4:
        fail = True

if fail:
    print("VIOLATION: result depends on the absolute magnitude of the field")
    sys.exit(1)
sys.exit(0)
