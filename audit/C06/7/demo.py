"""C06 / vertices lie in the straddling cell, mesh on the requested level:
marching_cubes(..., allow_degenerate=False) can change the *geometry* of the
surface.  remove_degenerate_faces() merges coincident vertices through a
one-level map (vertices_map1); when three or more edge vertices coincide at a
grid point whose sample equals the level, chains  c -> b -> a  are not resolved,
and faces that used c are re-pointed (via the cumsum index map) to an unrelated
kept vertex.  The result contains triangles that are not part of the
allow_degenerate=True surface and that stretch across several grid cells.
"""
import sys
import numpy as np
from chmpy.mc import marching_cubes

inner = np.array([[[0.98, -9.0, 0.86],
                   [0.84, 0.00, -0.62]],
                  [[0.41, 0.80, -0.79],
                   [-9.0, 0.95, 0.88]]])
vol = np.pad(inner, 1, constant_values=-9.0)   # level set stays inside the grid


def triangle_set(v, f):
    v = np.asarray(v, np.float32)
    out = set()
    for t in np.asarray(f):
        p = [tuple(v[i].tolist()) for i in t]
        if len(set(p)) < 3:
            continue                           # zero-area (degenerate) triangle
        k = p.index(min(p))
        out.add((p[k], p[(k + 1) % 3], p[(k + 2) % 3]))
    return out


v1, f1, _, _ = marching_cubes(vol, 0.0)
v2, f2, _, _ = marching_cubes(vol, 0.0, allow_degenerate=False)
s1, s2 = triangle_set(v1, f1), triangle_set(v2, f2)
print(f"allow_degenerate=True : {len(v1)} vertices, {len(f1)} faces, {len(s1)} non-degenerate triangles")
print(f"allow_degenerate=False: {len(v2)} vertices, {len(f2)} faces, {len(s2)} non-degenerate triangles")
print(f"triangles only in the default mesh: {len(s1 - s2)}, only in the 'cleaned' mesh: {len(s2 - s1)}")

# every triangle of a marching-cubes mesh must fit inside one grid cell
def max_extent(tris):
    return max((np.ptp(np.array(t), axis=0).max() for t in tris), default=0.0)

print(f"largest triangle extent along an axis: default {max_extent(s1):.3f} cells, "
      f"cleaned {max_extent(s2):.3f} cells")
for t in list(s2 - s1)[:3]:
    print("   spurious triangle:", np.round(np.array(t), 3).tolist())

if s1 != s2 or max_extent(s2) > 1.0 + 1e-6:
    print("VIOLATION: removing degenerate faces re-points faces to wrong vertices")
    sys.exit(1)
sys.exit(0)
