"""C06 / closed 2-manifold: grid samples that are exactly equal to the level.

A 3x2x2 block of ordinary values (two of them exactly 0.0), padded with -1, is
contoured at level 0.0.  The level set does not reach the grid boundary, but the
returned mesh has boundary edges (edges used by a single triangle) - also with
allow_degenerate=False, and also after welding coincident vertices.  Moving the
two at-level samples to -1e-6 gives a closed manifold.

Cause: in test_face() the decision `face * A * AC_BD >= 0` is always True when
corner A of an ambiguous face is exactly at the level (A == 0), whereas the
neighbouring cell evaluates the same face starting from a different corner, so
the two cells triangulate their common face differently.
"""
import sys
from collections import Counter
import numpy as np
from chmpy.mc import marching_cubes


def edge_use(faces):
    und = Counter()
    for t in np.asarray(faces).tolist():
        if len(set(t)) < 3:
            continue
        for i in range(3):
            a, b = t[i], t[(i + 1) % 3]
            und[(min(a, b), max(a, b))] += 1
    return Counter(und.values())


def weld(v, f):
    u, inv = np.unique(np.asarray(v), axis=0, return_inverse=True)
    return u, inv.reshape(-1)[np.asarray(f)]


blk = np.array([[[0.00, -0.16], [0.17, -0.33]],
                [[0.00, 0.07], [0.16, -0.17]],
                [[0.27, 0.35], [0.23, 0.08]]])
vol = np.pad(blk, 1, constant_values=-1.0)

fail = False
for label, kw in (("default", {}), ("allow_degenerate=False", {"allow_degenerate": False})):
    v, f, _, _ = marching_cubes(vol, 0.0, **kw)
    use = edge_use(f)
    use_w = edge_use(weld(v, f)[1])
    print(f"{label}: edge-use histogram {dict(use)}; after welding coincident vertices {dict(use_w)}")
    if set(use) != {2}:
        fail = True

nudged = vol.copy()
nudged[nudged == 0.0] = -1e-6
v, f, _, _ = marching_cubes(nudged, 0.0)
print(f"control (at-level samples moved to -1e-6): {dict(edge_use(f))}")

# frequency on smooth random fields with a few samples snapped to the level
from scipy.ndimage import gaussian_filter
rng = np.random.default_rng(4)
nbad = 0
for _ in range(100):
    a = gaussian_filter(rng.standard_normal((12, 12, 12)), 1.5)
    a /= a.std()
    a[np.abs(a) < 0.05] = 0.0
    a = np.pad(a, 1, constant_values=-9)
    v, f, _, _ = marching_cubes(a, 0.0, allow_degenerate=False)
    nbad += set(edge_use(f)) != {2}
print(f"smooth random fields with samples snapped to the level: {nbad}/100 open meshes")

if fail or nbad:
    print("VIOLATION: mesh is not closed when grid samples equal the level")
    sys.exit(1)
sys.exit(0)
