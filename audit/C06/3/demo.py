"""C06 / closed mesh for a non-default legitimate argument: step_size > 1.

With step_size=s the cell loop only covers indices 0 .. s*floor((N-1)/s); the
trailing (N-1) % s grid planes are silently dropped.  If the object extends into
that slab the mesh is cut open there, although the level set does not reach the
grid boundary (the whole outer layer of samples is below the level) and the
docstring promises "The result will always be topologically correct".
"""
import sys
from collections import Counter
import numpy as np
from chmpy.mc import marching_cubes


def boundary_edges(faces):
    und = Counter()
    for t in np.asarray(faces).tolist():
        for i in range(3):
            a, b = t[i], t[(i + 1) % 3]
            und[(min(a, b), max(a, b))] += 1
    return sum(1 for c in und.values() if c == 1)


def signed_volume(v, f):
    v = np.asarray(v, float)
    return np.einsum("ij,ij->i", v[f[:, 0]], np.cross(v[f[:, 1]], v[f[:, 2]])).sum() / 6


fail = False
for N in (20, 21, 24, 25):
    g = np.arange(N) - (N - 1) / 2
    X, Y, Z = np.meshgrid(g, g, g, indexing="ij")
    R = N / 2 - 1.6
    a = R - np.sqrt(X ** 2 + Y ** 2 + Z ** 2)  # sphere, > 0 inside
    # the level set is at least one full voxel away from every grid face
    assert max(a[0].max(), a[-1].max(), a[:, 0].max(), a[:, -1].max(),
               a[:, :, 0].max(), a[:, :, -1].max()) < 0
    for st in (1, 2, 3, 4):
        v, f, _, _ = marching_cubes(a, 0.0, step_size=st)
        nb = boundary_edges(f)
        ratio = abs(signed_volume(v, f)) / (4 / 3 * np.pi * R ** 3)
        flag = "" if nb == 0 else "   <-- OPEN"
        print(f"N={N} step_size={st} (N-1)%st={(N - 1) % st}: boundary edges={nb:3d} "
              f"max vertex coord={v.max():6.2f} volume/true={ratio:.3f}{flag}")
        if nb:
            fail = True
if fail:
    print("VIOLATION: step_size>1 yields an open mesh when (N-1) % step_size != 0")
    sys.exit(1)
sys.exit(0)
