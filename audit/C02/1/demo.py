"""C02 -- B-centred settings are tabulated as 'primitive', so their reduced
(SHELX LATT + SYMM) description carries the wrong LATT number and lists the
lattice centring translation as a SYMM operation.

For every tabulated setting the script derives, independently of the library,
the lattice centring from the pure translations contained in the operation
list, and the sign of LATT from the presence of the inversion at the origin.
That is what a SHELX description of the setting must carry.  It then compares
with SpaceGroup.centering / SpaceGroup.latt / reduced_symmetry_operations().
"""
import sys
import numpy as np
from chmpy.crystal.space_group import SpaceGroup, SG_CHOICES

I9 = (1, 0, 0, 0, 1, 0, 0, 0, 1)
# SHELX LATT conventions, translations in twelfths
LATT_TRANSLATIONS = {
    1: [],
    2: [(6, 6, 6)],
    3: [(8, 4, 4), (4, 8, 8)],
    4: [(0, 6, 6), (6, 0, 6), (6, 6, 0)],
    5: [(0, 6, 6)],
    6: [(6, 0, 6)],
    7: [(6, 6, 0)],
}
NAME = {1: "primitive", 2: "body", 3: "rcenter", 4: "face", 5: "aface", 6: "bface", 7: "cface"}


def key(op):
    R = tuple(int(round(v)) for v in np.asarray(op.rotation).ravel())
    T = tuple(int(round(float(v) * 12)) % 12 for v in op.translation)
    return R, T


bad = []
for num in range(1, 231):
    for choice in SG_CHOICES[num]:
        sg = SpaceGroup(num, choice=choice)
        ops = {key(o) for o in sg.symmetry_operations}
        pure = sorted(T for R, T in ops if R == I9 and T != (0, 0, 0))
        latt = [k for k, v in LATT_TRANSLATIONS.items() if sorted(v) == pure]
        assert len(latt) == 1, (num, choice, pure)
        latt = latt[0]
        if (tuple(-x for x in I9), (0, 0, 0)) not in ops:
            latt = -latt
        reduced = sg.reduced_symmetry_operations()
        translations_in_symm = [
            str(o) for o in reduced if key(o)[0] == I9 and not o.is_identity()
        ]
        if sg.latt != latt or sg.centering != NAME[abs(latt)] or translations_in_symm:
            bad.append((num, choice, sg.full_symbol, sg.centering, sg.latt, latt, translations_in_symm))

for num, choice, full, centering, got, want, tr in bad:
    print(
        f"SpaceGroup({num}, choice={choice!r}) {full}: centering={centering!r} latt={got} "
        f"but the operations contain the centring of LATT {want}; reduced SYMM list "
        f"contains pure lattice translations {tr}"
    )
if bad:
    print(f"{len(bad)} settings have a LATT/centering that disagrees with their operation list")
    sys.exit(1)
print("all settings: LATT and centering agree with the operation list")
sys.exit(0)
