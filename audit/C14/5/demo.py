"""C14: unit_cell_molecules() does not return an equal result when repeated: other
queries (symmetry_unique_molecules and everything built on it: molecule_dict,
molecular_shell, molecule_environments, asymmetric_unit_partial_charges,
symmetry_unique_dimers, ...) write `asym_mol_idx` into the memoised molecules.
"""
import sys
import logging
from pathlib import Path
import chmpy
from chmpy.crystal import Crystal
from chmpy.core.dimer import Dimer

logging.disable(logging.CRITICAL)
CIF = Path(chmpy.__file__).parent / "tests" / "test_files" / "iceII.cif"


def load():
    return Crystal.load(str(CIF))


def summary(mols):
    return [sorted(m.properties.keys()) for m in mols]


c = load()
first = summary(c.unit_cell_molecules())
idx_first = [m.properties.get("asym_mol_idx") for m in c.unit_cell_molecules()]
c.molecule_environments()           # an unrelated query
second = summary(c.unit_cell_molecules())
idx_second = [m.properties.get("asym_mol_idx") for m in c.unit_cell_molecules()]
fresh = summary(load().unit_cell_molecules())

print("properties of unit_cell_molecules()[0], first call :", first[0])
print("properties of unit_cell_molecules()[0], second call:", second[0])
print("asym_mol_idx of the unit-cell molecules, first call :", idx_first)
print("asym_mol_idx of the unit-cell molecules, second call:", idx_second)

# consequence: anything reading the index gives history-dependent answers
a = load(); ma = a.unit_cell_molecules()
d1 = Dimer(ma[0], ma[-1]).b_idx
b = load(); b.symmetry_unique_molecules(); mb = b.unit_cell_molecules()
d2 = Dimer(mb[0], mb[-1]).b_idx
print("Dimer(mols[0], mols[-1]).b_idx on a fresh crystal:", d1, " after symmetry_unique_molecules():", d2)

if first != second or second != fresh:
    print("VIOLATION: repeating unit_cell_molecules() gives molecules with different properties; "
          "the result differs from a fresh crystal's")
    sys.exit(1)
sys.exit(0)
