"""C14: repeating asymmetric_unit_partial_charges() does not return an equal result.

For a crystal with a mixed-occupancy site (two asymmetric-unit sites on the same
position, as in substitutional disorder; unit_cell_atoms merges them, which the
library's own tests exercise), one asymmetric-unit atom belongs to no molecule and
its entry in the result is left as uninitialised memory (np.empty).
"""
import sys
import logging
import numpy as np
from chmpy.crystal import Crystal, UnitCell, SpaceGroup, AsymmetricUnit
from chmpy.core.element import Element

logging.disable(logging.CRITICAL)


def make():
    uc = UnitCell.from_lengths_and_angles([7.1, 8.3, 9.7], [81.0, 97.0, 104.0], unit="degrees")
    asym = AsymmetricUnit(
        [Element["C"], Element["O"], Element["Cl"], Element["Br"]],
        np.array([[0.12, 0.23, 0.31], [0.22, 0.23, 0.31], [0.6, 0.7, 0.8], [0.6, 0.7, 0.8]]),
        occupation=np.array([1.0, 1.0, 0.5, 0.5]),  # Cl/Br share one site
    )
    return Crystal(uc, SpaceGroup(2), asym)


c = make()
results = []
for i in range(8):
    results.append(np.array(c.asymmetric_unit_partial_charges(), copy=True))
    # unrelated allocations between the calls, as in any real program
    junk = [np.random.rand(k).astype(np.float32) for k in range(1, 12)]
    del junk
results = np.array(results)
print(results)
same = all(np.array_equal(results[0], r, equal_nan=True) for r in results[1:])
covered = sorted(set(np.hstack([m.properties["asymmetric_unit_atoms"] for m in c.symmetry_unique_molecules()])))
print("asymmetric-unit atoms covered by molecules:", covered, "of", len(c.asymmetric_unit))
if not same:
    print("VIOLATION: the entry of the atom that belongs to no molecule is uninitialised memory; "
          "repeated calls return different arrays")
    sys.exit(1)
sys.exit(0)
