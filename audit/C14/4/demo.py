"""C14: the CIF exported after choose_trigonal_lattice() still carries items derived
from the OLD cell / setting (cell volume, Z, space-group setting symbol).

to_cif_data() refreshes cell lengths/angles, symmetry operations and atom sites in the
CIF dictionary kept from loading, but other structure-derived items of that dictionary
are written out unchanged, so the exported file does not describe the crystal's
current state (and differs from what a fresh crystal with the same cell, space group
and asymmetric unit exports).
"""
import sys
import logging
from pathlib import Path
import numpy as np
import chmpy
from chmpy.crystal import Crystal
from chmpy.fmt.cif import Cif

logging.disable(logging.CRITICAL)
CIF = Path(chmpy.__file__).parent / "tests" / "test_files" / "r3c_example.cif"

c = Crystal.load(str(CIF))           # R3c on hexagonal axes, V = 11549.2, Z = 18
c.choose_trigonal_lattice("R")       # now rhombohedral axes: V and Z are a third of that
text = c.to_cif_string()
data = list(Cif.from_string(text).data.values())[0]

a, b, cc = (float(data[f"cell_length_{x}"]) for x in "abc")
al, be, ga = (np.radians(float(data[f"cell_angle_{x}"])) for x in ("alpha", "beta", "gamma"))
ca, cb, cg = np.cos([al, be, ga])
vol = a * b * cc * np.sqrt(1 - ca * ca - cb * cb - cg * cg + 2 * ca * cb * cg)
n_ops = len(data["symmetry_equiv_pos_as_xyz"])

bad = False
print(f"exported cell: a=b=c={a:.4f}, alpha={np.degrees(al):.3f}  -> volume {vol:.1f}; {n_ops} symmetry operations")
if "cell_volume" in data:
    print(f"exported _cell_volume: {data['cell_volume']}")
    if abs(float(data["cell_volume"]) - vol) > 1.0:
        print("VIOLATION: _cell_volume is the old hexagonal cell's volume")
        bad = True
if "cell_formula_units_Z" in data:
    z_expected = 18 * vol / 11549.2
    print(f"exported _cell_formula_units_Z: {data['cell_formula_units_Z']} (current cell holds {z_expected:.1f})")
    if abs(float(data["cell_formula_units_Z"]) - z_expected) > 0.5:
        print("VIOLATION: _cell_formula_units_Z is the old cell's Z")
        bad = True
hm = str(data.get("symmetry_space_group_name_H-M", ""))
if hm:
    print(f"exported _symmetry_space_group_name_H-M: {hm!r}; crystal's space group choice: {c.space_group.choice!r}")
    if hm.strip().endswith(":H") and c.space_group.choice == "R":
        print("VIOLATION: the setting symbol still says hexagonal axes")
        bad = True
sys.exit(1 if bad else 0)
