"""C14: changing the crystal's cell / asymmetric unit through their public mutators
(UnitCell.set_lengths_and_angles, UnitCell.set_vectors, assigning
crystal.unit_cell / crystal.asymmetric_unit.positions) leaves the memoised unit-cell
atoms, bond graph and molecules of the OLD state in place.
"""
import sys
import logging
from pathlib import Path
import numpy as np
import chmpy
from chmpy.crystal import Crystal, UnitCell, SpaceGroup, AsymmetricUnit
from chmpy.core.element import Element

logging.disable(logging.CRITICAL)
RES = Path(chmpy.__file__).parent / "tests" / "test_files" / "acetic_acid.res"


def fresh_like(c):
    uc = UnitCell(np.array(c.unit_cell.direct, copy=True))
    sg = SpaceGroup(c.space_group.international_tables_number, choice=c.space_group.choice)
    a = c.asymmetric_unit
    asym = AsymmetricUnit([Element[int(z)] for z in a.atomic_numbers], np.array(a.positions, copy=True),
                          labels=np.array(a.labels, copy=True))
    return Crystal(uc, sg, asym)


bad = False
c = Crystal.load(str(RES))
c.unit_cell_atoms(); c.unit_cell_molecules(); c.symmetry_unique_molecules()   # queries
# state-changing operation: isotropic-ish expansion of the (orthorhombic) cell, documented as
# "Modify this unit cell by setting the lattice vectors according to lengths ... and angles"
c.unit_cell.set_lengths_and_angles([14.0, 4.3, 6.0], [np.pi / 2] * 3)
f = fresh_like(c)

d_atoms = np.abs(c.unit_cell_atoms()["cart_pos"] - f.unit_cell_atoms()["cart_pos"]).max()
d_self = np.abs(c.slab(bounds=((0, 0, 0), (0, 0, 0)))["cart_pos"] - c.unit_cell_atoms()["cart_pos"]).max()
d_mol = np.abs(c.symmetry_unique_molecules()[0].positions - f.symmetry_unique_molecules()[0].positions).max()
d_p1 = np.abs(c.as_P1().asymmetric_unit.positions - f.as_P1().asymmetric_unit.positions).max()
print(f"unit_cell_atoms()['cart_pos'] vs fresh crystal with the new cell: max diff {d_atoms:.4f} A")
print(f"slab() of the (0,0,0) cell vs unit_cell_atoms() on the SAME crystal: max diff {d_self:.4f} A")
print(f"symmetry_unique_molecules()[0].positions vs fresh: max diff {d_mol:.4f} A")
print(f"as_P1() fractional coordinates vs fresh: max diff {d_p1:.4f}")
if max(d_atoms, d_self, d_mol, d_p1) > 1e-6:
    print("VIOLATION: derived data still describe the old cell")
    bad = True

# same for the asymmetric unit
c = Crystal.load(str(RES))
c.unit_cell_atoms()
c.asymmetric_unit.positions = c.asymmetric_unit.positions + np.array([0.1, 0.0, 0.0])
f = fresh_like(c)
d = np.abs(c.unit_cell_atoms()["frac_pos"] - f.unit_cell_atoms()["frac_pos"]).max()
print(f"after shifting asymmetric_unit.positions: unit_cell_atoms()['frac_pos'] vs fresh: max diff {d:.4f}")
if d > 1e-9:
    print("VIOLATION: unit_cell_atoms() still returns the old coordinates")
    bad = True
sys.exit(1 if bad else 0)
