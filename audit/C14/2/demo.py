"""C14: the memoised bond graph / molecule lists ignore the bonding arguments.

unit_cell_connectivity(tolerance=...), unit_cell_molecules(bond_tolerance=...) and
symmetry_unique_molecules(bond_tolerance=...) (and the `covalent_radii` keyword)
return whatever was memoised first, whatever arguments it was computed with.
Each query below is always issued with the same arguments.
"""
import sys
import logging
from pathlib import Path
import numpy as np
import chmpy
from chmpy.crystal import Crystal

logging.disable(logging.CRITICAL)
CIF = Path(chmpy.__file__).parent / "tests" / "test_files" / "acetic_acid.cif"


def load():
    return Crystal.load(str(CIF))


def independent_nbonds(crystal, tol):
    # own periodic bond count: pairs (i<j, any lattice image) closer than cov_i+cov_j+tol
    from chmpy.core.element import Element
    uc = crystal.unit_cell_atoms()
    frac, nums = uc["frac_pos"], uc["element"]
    cov = np.array([Element.from_atomic_number(int(n)).cov for n in nums])
    n = 0
    shifts = [(h, k, l) for h in (-1, 0, 1) for k in (-1, 0, 1) for l in (-1, 0, 1)]
    pairs = set()
    for i in range(len(frac)):
        for j in range(i + 1, len(frac)):
            for s in shifts:
                d = np.linalg.norm(crystal.to_cartesian(frac[j] + np.array(s) - frac[i]))
                if 1e-3 < d < cov[i] + cov[j] + tol:
                    pairs.add((i, j))
    return len(pairs)


bad = False
TOL = 0.8  # large tolerance: O-H...O hydrogen bonds count as bonds, molecules join into chains

a = load()
n_mols_fresh = len(a.unit_cell_molecules(bond_tolerance=TOL))
n_edges_fresh = load().unit_cell_connectivity(tolerance=TOL)[0].nnz
print(f"fresh: unit_cell_molecules(bond_tolerance={TOL}) -> {n_mols_fresh} molecules; "
      f"unit_cell_connectivity(tolerance={TOL}) -> {n_edges_fresh} bonded pairs "
      f"(independent count {independent_nbonds(load(), TOL)})")

b = load()
b.symmetry_unique_molecules()  # always called without arguments
n_mols_b = len(b.unit_cell_molecules(bond_tolerance=TOL))
n_edges_b = b.unit_cell_connectivity(tolerance=TOL)[0].nnz
print(f"after symmetry_unique_molecules(): unit_cell_molecules(bond_tolerance={TOL}) -> {n_mols_b} molecules; "
      f"unit_cell_connectivity(tolerance={TOL}) -> {n_edges_b} bonded pairs")
if (n_mols_b, n_edges_b) != (n_mols_fresh, n_edges_fresh):
    print("VIOLATION: same queries, same arguments, different answers than a fresh crystal")
    bad = True

c = load()
c.unit_cell_connectivity(tolerance=TOL)  # always called with tolerance=0.8
sizes_c = [len(m) for m in c.symmetry_unique_molecules()]
sizes_fresh = [len(m) for m in load().symmetry_unique_molecules()]
print(f"after unit_cell_connectivity(tolerance={TOL}): symmetry_unique_molecules() sizes {sizes_c}; fresh crystal {sizes_fresh}")
if sizes_c != sizes_fresh:
    print("VIOLATION: default-argument molecule query depends on an earlier connectivity query")
    bad = True
p1_c = c.as_P1().asymmetric_unit.positions
p1_f = load().as_P1().asymmetric_unit.positions
if p1_c.shape != p1_f.shape or not np.allclose(p1_c, p1_f):
    print("VIOLATION: as_P1() (built from the memoised molecules) differs from the fresh crystal's")
    bad = True

sys.exit(1 if bad else 0)
