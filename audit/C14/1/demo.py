"""C14: Crystal.unit_cell_atoms memoises its result without regard to `tolerance`.

Every query below is always issued with the same arguments, yet the answers
depend on which query happened to run first, and differ from what a freshly
constructed crystal (same cell, space group, asymmetric unit) gives.
"""
import sys
import logging
import numpy as np
from chmpy.crystal import Crystal, UnitCell, SpaceGroup, AsymmetricUnit
from chmpy.core.element import Element

logging.disable(logging.CRITICAL)


def make():
    # P-1, oblique cell, a Cl atom disordered over two positions 0.024 (fractional)
    # apart across the inversion centre at (1/2, 1/2, 1/2), occupancy 0.5 each
    uc = UnitCell.from_lengths_and_angles([7.1, 8.3, 9.7], [81.0, 97.0, 104.0], unit="degrees")
    asym = AsymmetricUnit(
        [Element["C"], Element["O"], Element["Cl"]],
        np.array([[0.12, 0.23, 0.31], [0.30, 0.10, 0.20], [0.512, 0.5, 0.5]]),
        occupation=np.array([1.0, 1.0, 0.5]),
    )
    return Crystal(uc, SpaceGroup(2), asym)


def independent_count(crystal, tol):
    # own expansion: x and -x, wrapped into [0, 1), greedy merge within tol
    p = np.asarray(crystal.asymmetric_unit.positions)
    allp = np.vstack([p, -p]) % 1.0
    kept = []
    for q in allp:
        if all(np.linalg.norm(q - k) > tol for k in kept):
            kept.append(q)
    return len(kept)


TOL = 0.05
bad = False

fresh = make()
n_fresh = len(fresh.unit_cell_atoms(tolerance=TOL)["element"])
n_expected = independent_count(fresh, TOL)
print(f"fresh crystal: unit_cell_atoms(tolerance={TOL}) -> {n_fresh} sites (independent count {n_expected})")

used = make()
_ = used.density  # a query without arguments
n_used = len(used.unit_cell_atoms(tolerance=TOL)["element"])
print(f"after .density: unit_cell_atoms(tolerance={TOL}) -> {n_used} sites")
if n_used != n_fresh:
    print("VIOLATION: same query, same arguments, different answer than a fresh crystal")
    bad = True

used2 = make()
used2.unit_cell_atoms(tolerance=TOL)
d_used, d_fresh = used2.density, make().density
print(f"density after unit_cell_atoms(tolerance={TOL}): {d_used:.6f}; fresh crystal: {d_fresh:.6f}")
if abs(d_used - d_fresh) > 1e-9:
    print("VIOLATION: density depends on an earlier unit_cell_atoms(tolerance=...) call")
    bad = True
if used2.to_poscar_string() != make().to_poscar_string():
    print("VIOLATION: exported POSCAR differs from the fresh crystal's")
    bad = True
if used2.slab()["n_uc"] != make().slab()["n_uc"]:
    print("VIOLATION: slab() differs from the fresh crystal's")
    bad = True

sys.exit(1 if bad else 0)
