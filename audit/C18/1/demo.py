"""C18: kabsch_rotation_matrix / rmsd_points give a non-optimal rotation for
integer point sets of a narrow dtype: the covariance A^T B is accumulated in
the input integer dtype and silently wraps around."""
import sys
import numpy as np
from chmpy.util.num import kabsch_rotation_matrix, rmsd_points

# points on an integer grid (e.g. voxel indices / picometre coordinates), int16
A = np.array(
    [[150, 20, -30], [-120, 200, 10], [40, -170, 90], [10, 60, -210], [-80, -110, 140]],
    dtype=np.int16,
)
# B is A rotated by exactly 90 degrees about z (row convention A @ Q): congruent sets
Q = np.array([[0, 1, 0], [-1, 0, 0], [0, 0, 1]], dtype=np.int16)
B = A @ Q
assert np.array_equal(B.astype(float), A.astype(float) @ Q.astype(float))

R_int = kabsch_rotation_matrix(A, B)
R_flt = kabsch_rotation_matrix(A.astype(float), B.astype(float))
rmsd_int = rmsd_points(A, B)
rmsd_flt = rmsd_points(A.astype(float), B.astype(float))

# independent optimum: the sets are congruent by the proper rotation Q -> 0
resid_int = np.sqrt(((A.astype(float) @ R_int - B) ** 2).sum() / len(A))
print("rotation from int16 input:\n", np.round(R_int, 4))
print("rotation from float input:\n", np.round(R_flt, 4))
print("exact rotation relating the sets:\n", Q)
print("RMSD helper, int16 input :", rmsd_int)
print("RMSD helper, float input :", rmsd_flt)
print("residual of int16 rotation applied to A:", resid_int)

bad = rmsd_int > 1e-8 or not np.allclose(R_int, Q, atol=1e-8)
if bad:
    print("VIOLATION: congruent integer point sets are not superposed; "
          "covariance overflowed in int16 (true cov differs from computed):")
    print(" computed cov:\n", np.dot(A.T, B))
    print(" true cov:\n", np.dot(A.T.astype(np.int64), B.astype(np.int64)))
    sys.exit(1)
print("OK")
sys.exit(0)
