"""C18: Dimer.calculate_transform stores a rotation that, applied the way the
library applies rotations (np.dot(positions, R), see Molecule.rotate /
reorient_points / kabsch_rotation_matrix docstring), aligns mol_b onto mol_a,
while it is documented and paired with a translation v_ab = centroid_b -
centroid_a as the transform FROM mol_a TO mol_b.  Applying transform_ab to
mol_a does therefore not superpose it on the congruent mol_b unless the
rotation is its own inverse (identity, 2-fold)."""
import sys
import numpy as np
from chmpy.core.molecule import Molecule
from chmpy.core.dimer import Dimer

rng = np.random.default_rng(3)
nums = np.array([6, 7, 8, 1, 1, 9])
pos_a = rng.normal(size=(6, 3)) * 1.5
worst = 0.0
for angle in (180.0, 120.0, 90.0, 60.0, 37.0):
    th = np.deg2rad(angle)
    c, s = np.cos(th), np.sin(th)
    Q = np.array([[c, s, 0], [-s, c, 0], [0, 0, 1]])  # proper rotation, row convention
    shift = np.array([5.0, 1.0, 2.0])
    ca = pos_a.mean(axis=0)
    pos_b = (pos_a - ca) @ Q + ca + shift  # mol_b is mol_a rotated about its centroid, then shifted
    a = Molecule.from_arrays(nums, pos_a)
    b = Molecule.from_arrays(nums, pos_b)
    d = Dimer(a, b, transform_ab="calculate")
    R, t = d.transform_ab
    assert abs(np.linalg.det(R) - 1) < 1e-9
    # apply "the transform from mol_a to mol_b" to mol_a using the library's own methods
    a_on_b = a.rotated(R, origin=a.centroid).translated(t)
    dev = np.sqrt(((a_on_b.positions - b.positions) ** 2).sum() / len(a))
    # independent optimum: Q about the centroid + shift superposes exactly -> RMSD 0
    a_inv = a.rotated(R.T, origin=a.centroid).translated(t)
    dev_inv = np.sqrt(((a_inv.positions - b.positions) ** 2).sum() / len(a))
    print(f"angle {angle:6.1f}: RMSD(a transformed by transform_ab, b) = {dev:.3e}"
          f"   (using R.T instead: {dev_inv:.1e});  R == Q: {np.allclose(R, Q)}, R == Q.T: {np.allclose(R, Q.T)}")
    worst = max(worst, dev)

if worst > 1e-8:
    print("VIOLATION: the rotation in Dimer.transform_ab aligns mol_b onto mol_a "
          "(inverse of the a->b rotation) although the translation is a->b; "
          "congruent molecules are not superposed by the stored transform")
    sys.exit(1)
print("OK")
sys.exit(0)
