"""
C09 -- "The radial surface function ... solves the isovalue equation along every grid
direction, and a surface that cannot be found inside the search bounds is reported as an
error rather than described."

When the crystal environment handed to the stockholder-weight root finder does not close
the Hirshfeld surface in some direction (here: Crystal.molecular_shape_descriptors with the
legitimate argument radius=3.0 on the acetic acid test crystal; the same happens for any
cluster given to chmpy.shape.stockholder_weight_descriptor with its default bounds), the
weight w = rho_in / (rho_in + rho_out) never crosses 0.5 along those rays.  Instead of
reporting an error the library returns radii of ~11 A, which are merely the places where the
tabulated atomic densities are cut off (10.58 A from an atom: rho jumps from ~1e-17 to 0, and
0/0 is silently turned into 0 by a swallowed ZeroDivisionError).  These radii do NOT solve
w(r) = 0.5, but they are transformed and described as if they did.

The reference weight below is computed independently in float64 from the density table
(thakkar_interp.npz), not with the library's interpolation code.
"""
import os
import sys
import warnings

import numpy as np

warnings.filterwarnings("ignore")
# the library floods stderr with "Exception ignored ... ZeroDivisionError" from a nogil
# cdef function; silence fd 2 so the demo output stays readable.
_devnull = os.open(os.devnull, os.O_WRONLY)
os.dup2(_devnull, 2)

import chmpy.shape.shape_descriptors as sd  # noqa: E402
from chmpy.crystal import Crystal  # noqa: E402

HERE = os.path.dirname(os.path.abspath(__file__))
SRC = os.path.join(HERE, "..", "..", "src", "chmpy")
CIF = os.path.join(SRC, "tests", "test_files", "acetic_acid.cif")
TABLE = np.load(os.path.join(SRC, "interpolate", "thakkar_interp.npz"))
DOMAIN = TABLE["domain"].astype(np.float64)  # r^2 in bohr^2
RHO = TABLE["rho"].astype(np.float64)
BOHR = 0.5291772108


def rho_ref(els, pos, pts):
    out = np.zeros(len(pts))
    for e, p in zip(els, pos):
        r2 = np.sum((pts - p) ** 2, axis=1) / BOHR ** 2
        out += np.interp(r2, DOMAIN, RHO[e - 1], right=0.0)
    return out


# record what the root finder was given / returned inside the public API call
captured = {}
_orig = sd.sphere_stockholder_radii


def recording(s, o, g, lo, hi, tol, it, iso):
    r = _orig(s, o, g, lo, hi, tol, it, iso)
    captured.update(o=np.array(o, dtype=float), g=np.array(g, dtype=float),
                    lo=lo, hi=hi, iso=iso, r=np.array(r))
    return r


sd.sphere_stockholder_radii = recording


def analyse(label, n_i, p_i, n_e, p_e, n0):
    """check every radius the library's root finder returned against the reference weight"""
    o, g, r, iso = captured["o"], captured["g"], captured["r"], captured["iso"]
    p_i = np.asarray(p_i, dtype=np.float32).astype(float)  # library stores float32
    p_e = np.asarray(p_e, dtype=np.float32).astype(float)

    def w_ref(pts):
        a = rho_ref(n_i, p_i, pts)
        b = rho_ref(n_e, p_e, pts)
        with np.errstate(all="ignore"):
            return a / (a + b)  # nan where undefined (0/0)

    print(f"{label}\n  returned a descriptor without error; search bounds "
          f"({captured['lo']:.3f}, {captured['hi']:.3f}) A, {len(r)} grid directions, "
          f"{len(n_e)} exterior atoms, N_0 = {n0:.3f}")
    bad = 0
    for k, rk in enumerate(r):
        ts = rk + np.linspace(-0.01, 0.01, 41)  # best residual in a +-0.01 A window
        w = w_ref(o + g[k] * ts[:, None])
        resid = np.where(np.isnan(w), np.inf, np.abs(w - iso))
        if resid.min() <= 0.05:
            continue
        bad += 1
        inner, outer = w_ref(o + g[k] * np.array([[rk - 0.01], [rk + 0.01]]))
        # is there a genuine (continuous) crossing anywhere inside the bounds?
        tt = np.arange(captured["lo"], captured["hi"], 0.002)
        d = w_ref(o + g[k] * tt[:, None]) - iso
        ok = ~np.isnan(d)
        crossing = np.any((d[:-1] * d[1:] <= 0) & ok[:-1] & ok[1:]
                          & (np.abs(d[:-1]) < 0.2) & (np.abs(d[1:]) < 0.2))
        if bad <= 6:
            fmt = lambda v: "undefined (0/0)" if np.isnan(v) else f"{v:.4f}"  # noqa: E731
            print(f"    direction {k:3d}: returned r = {rk:7.3f} A but w(r-0.01) = {fmt(inner)}, "
                  f"w(r+0.01) = {fmt(outer)}; genuine w = {iso} crossing within bounds: {bool(crossing)}")
    print(f"  -> {bad} of {len(r)} returned radii do not solve w(r) = {iso}")
    return bad


total_bad = 0
errors = 0

# --- scenario A: public Crystal API with a small (but legitimate) environment radius -------
RADIUS, L_MAX = 3.0, 10
crystal = Crystal.load(CIF)
try:
    desc = crystal.molecular_shape_descriptors(l_max=L_MAX, radius=RADIUS)
    mol, n_e, p_e = crystal.molecule_environments(radius=RADIUS)[0]
    total_bad += analyse(
        f"A) Crystal.molecular_shape_descriptors(l_max={L_MAX}, radius={RADIUS}) on acetic_acid.cif",
        np.array(mol.atomic_numbers), mol.positions, np.array(n_e), p_e, desc[0][0])
except ValueError as e:
    errors += 1
    print("A) library reported an error (this is what the property requires):", e)

# --- scenario B: stockholder_weight_descriptor on a water dimer, default bounds (0.1, 20) --
from chmpy.shape import SHT  # noqa: E402

n_w = np.array([8, 1, 1])
p_w = np.array([[0.0, 0.0, 0.0], [0.96, 0.0, 0.0], [-0.24, 0.93, 0.0]])
p_w2 = p_w + np.array([0.0, 0.0, 3.0])
try:
    d = sd.stockholder_weight_descriptor(SHT(4), n_w, p_w, n_w, p_w2)
    total_bad += analyse(
        "B) stockholder_weight_descriptor(SHT(4), water, neighbouring water 3 A away), default bounds",
        n_w, p_w, n_w, p_w2, d[0])
except ValueError as e:
    errors += 1
    print("B) library reported an error (this is what the property requires):", e)

if total_bad:
    print(f"VIOLATION: {total_bad} radii that do not solve the isovalue equation (they sit on the "
          "density-table cut-off ~10.6 A from the atoms) were accepted and described; no error raised.")
    sys.exit(1)
print("every scenario either raised an error or returned only genuine solutions")
sys.exit(0)
