import sys
import numpy as np
from chmpy.crystal.wulff import WulffSHT
from chmpy.shape.sht import SHT

rng = np.random.default_rng(0)
normals = rng.normal(size=(14, 3))
normals /= np.linalg.norm(normals, axis=1)[:, None]
energies = rng.uniform(1.0, 1.4, size=14)


def n_invariants_from_real_layout(coeffs, lmax):
    """independent per-degree norms from the m-major real-transform layout"""
    out = np.zeros(lmax + 1)
    i = 0
    for m in range(lmax + 1):
        for l in range(m, lmax + 1):
            out[l] += (1 if m == 0 else 2) * abs(coeffs[i]) ** 2
            i += 1
    return np.sqrt(out)


bad = False
for L in (6, 12):
    sht = SHT(L)
    w_obj = WulffSHT(normals, energies, sht_object=sht)      # re-use a transform object
    w_ref = WulffSHT(normals, energies, l_max=L)              # same thing via l_max
    assert np.allclose(w_obj.coeffs, w_ref.coeffs)
    ref_N = n_invariants_from_real_layout(w_ref.coeffs, L)
    n_ref = w_ref.invariants(kinds="N")
    n_obj = w_obj.invariants(kinds="N")
    print(f"SHT({L}) passed as sht_object: WulffSHT.l_max = {w_obj.l_max}, len(coeffs) = {len(w_obj.coeffs)}")
    print("   independent per-degree norms :", np.round(ref_N, 4))
    print("   WulffSHT(l_max=L).invariants :", np.round(n_ref, 4))
    print("   WulffSHT(sht_object).invariants:", np.round(n_obj, 4))
    ps_obj = w_obj.power_spectrum()
    ps_ref = w_ref.power_spectrum()
    print("   power_spectrum lengths (sht_object / l_max):", len(ps_obj), len(ps_ref))
    if len(n_obj) != L + 1 or not np.allclose(n_obj, ref_N, rtol=1e-9):
        bad = True
    if len(ps_obj) != len(ps_ref) or not np.allclose(ps_obj, ps_ref):
        bad = True
    assert np.allclose(n_ref, ref_N, rtol=1e-9)

if bad:
    print("VIOLATION: with sht_object given, WulffSHT keeps l_max=10 and its invariants / power spectrum are "
          "computed with the wrong coefficient layout (for SHT(6) even from memory beyond the 28 coefficients)")
    sys.exit(1)
print("ok")
sys.exit(0)
