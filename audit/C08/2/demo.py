import sys
import numpy as np
from scipy.special import sph_harm_y, roots_legendre
from scipy.spatial.transform import Rotation


def ylm_matrix(lmax, theta, phi):
    """standard (Condon-Shortley) complex Y_lm at points; column index l*(l+1)+m"""
    out = np.empty((theta.size, (lmax + 1) ** 2), dtype=complex)
    for l in range(lmax + 1):
        for m in range(-l, l + 1):
            out[:, l * (l + 1) + m] = sph_harm_y(l, m, theta, phi)
    return out


def rotate_coeffs(c, lmax, R):
    """Coefficients of g(x) = f(R^-1 x), f = sum c_lm Y_lm, by an exact
    Gauss-Legendre x uniform-phi quadrature (independent of chmpy)."""
    nt, nph = 2 * lmax + 4, 4 * lmax + 8
    x, w = roots_legendre(nt)
    ph = np.arange(nph) * 2 * np.pi / nph
    T, P = np.meshgrid(np.arccos(x), ph, indexing="ij")
    W = (np.repeat(w[:, None], nph, axis=1) * 2 * np.pi / nph).ravel()
    T, P = T.ravel(), P.ravel()
    xyz = np.c_[np.sin(T) * np.cos(P), np.sin(T) * np.sin(P), np.cos(T)]
    xr = xyz @ R
    g = ylm_matrix(lmax, np.arccos(np.clip(xr[:, 2], -1, 1)), np.arctan2(xr[:, 1], xr[:, 0])) @ c
    return (ylm_matrix(lmax, T, P).conj() * W[:, None]).T @ g


def random_real_coeffs(lmax, rng):
    """full (complex-layout) coefficients of a random REAL function"""
    c = np.zeros((lmax + 1) ** 2, dtype=complex)
    for l in range(lmax + 1):
        c[l * (l + 1)] = rng.normal()
        for m in range(1, l + 1):
            v = rng.normal() + 1j * rng.normal()
            c[l * (l + 1) + m] = v
            c[l * (l + 1) - m] = (-1) ** m * np.conj(v)
    return c


def to_real_layout(c, lmax):
    """chmpy real-transform layout: m-major, l = m..lmax, m >= 0"""
    return np.array([c[l * (l + 1) + m] for m in range(lmax + 1) for l in range(m, lmax + 1)])


from chmpy.shape.sht import SHT

from chmpy.shape._invariants import p_invariants_r, p_invariants_c


def to_lmajor_real_layout(c, lmax):
    """the layout p_invariants_r itself indexes: idx = l(l+1)/2 + m, m >= 0"""
    return np.array([c[l * (l + 1) + m] for l in range(lmax + 1) for m in range(l + 1)])


rng = np.random.default_rng(0)
bad = False
for lmax in (2, 3, 5):
    c = random_real_coeffs(lmax, rng)
    R = Rotation.random(random_state=rng).as_matrix()
    cr = rotate_coeffs(c, lmax, R)
    ref0, ref1 = p_invariants_c(c), p_invariants_c(cr)
    print(f"lmax={lmax}: full-coefficient P invariants change under rotation by {np.abs(ref0-ref1).max():.2e} (fine)")
    for name, lay in (("SHT real layout (m-major)", to_real_layout), ("l-major layout used by coefficient_r", to_lmajor_real_layout)):
        p0 = p_invariants_r(np.ascontiguousarray(lay(c, lmax)))
        p1 = p_invariants_r(np.ascontiguousarray(lay(cr, lmax)))
        d = np.abs(p0 - p1).max()
        print(f"   p_invariants_r, {name}: {len(p0)} values, max change under rotation {d:.3e}")
        print(f"      original {np.round(p0, 4)}")
        print(f"      rotated  {np.round(p1, 4)}")
        if d > 1e-8:
            bad = True
if bad:
    print("VIOLATION: p_invariants_r (P-type invariants from real-transform coefficients) is not rotation invariant")
    sys.exit(1)
print("ok")
sys.exit(0)
