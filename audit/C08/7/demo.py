import sys
import numpy as np
from scipy.special import sph_harm_y, roots_legendre
from scipy.spatial.transform import Rotation


def ylm_matrix(lmax, theta, phi):
    """standard (Condon-Shortley) complex Y_lm at points; column index l*(l+1)+m"""
    out = np.empty((theta.size, (lmax + 1) ** 2), dtype=complex)
    for l in range(lmax + 1):
        for m in range(-l, l + 1):
            out[:, l * (l + 1) + m] = sph_harm_y(l, m, theta, phi)
    return out


def rotate_coeffs(c, lmax, R):
    """Coefficients of g(x) = f(R^-1 x), f = sum c_lm Y_lm, by an exact
    Gauss-Legendre x uniform-phi quadrature (independent of chmpy)."""
    nt, nph = 2 * lmax + 4, 4 * lmax + 8
    x, w = roots_legendre(nt)
    ph = np.arange(nph) * 2 * np.pi / nph
    T, P = np.meshgrid(np.arccos(x), ph, indexing="ij")
    W = (np.repeat(w[:, None], nph, axis=1) * 2 * np.pi / nph).ravel()
    T, P = T.ravel(), P.ravel()
    xyz = np.c_[np.sin(T) * np.cos(P), np.sin(T) * np.sin(P), np.cos(T)]
    xr = xyz @ R
    g = ylm_matrix(lmax, np.arccos(np.clip(xr[:, 2], -1, 1)), np.arctan2(xr[:, 1], xr[:, 0])) @ c
    return (ylm_matrix(lmax, T, P).conj() * W[:, None]).T @ g


def random_real_coeffs(lmax, rng):
    """full (complex-layout) coefficients of a random REAL function"""
    c = np.zeros((lmax + 1) ** 2, dtype=complex)
    for l in range(lmax + 1):
        c[l * (l + 1)] = rng.normal()
        for m in range(1, l + 1):
            v = rng.normal() + 1j * rng.normal()
            c[l * (l + 1) + m] = v
            c[l * (l + 1) - m] = (-1) ** m * np.conj(v)
    return c


def to_real_layout(c, lmax):
    """chmpy real-transform layout: m-major, l = m..lmax, m >= 0"""
    return np.array([c[l * (l + 1) + m] for m in range(lmax + 1) for l in range(m, lmax + 1)])


from chmpy.shape.sht import SHT

from chmpy.shape._invariants import p_invariants_c

rng = np.random.default_rng(0)
lmax = 6
# a real function with a mirror plane (xz): all c_lm real.  Every achiral shape is of
# this kind in a suitable frame; its odd (l+l1+l2 odd) bispectrum components vanish.
c = random_real_coeffs(lmax, rng).real.astype(complex)
for l in range(lmax + 1):
    for m in range(1, l + 1):
        c[l * (l + 1) - m] = (-1) ** m * c[l * (l + 1) + m]
ms = np.concatenate([np.arange(-l, l + 1) for l in range(lmax + 1)])
p0 = p_invariants_c(c)
worst = 0.0
for t in range(5):
    a = rng.uniform(0, 2 * np.pi)
    cz = c * np.exp(-1j * ms * a)          # exact rotation about z: c_lm -> e^{-i m a} c_lm
    assert np.allclose(np.abs(cz), np.abs(c), rtol=0, atol=1e-15)
    pz = p_invariants_c(np.ascontiguousarray(cz))
    R = Rotation.random(random_state=rng).as_matrix()
    pr = p_invariants_c(np.ascontiguousarray(rotate_coeffs(c, lmax, R)))
    dz, dr = np.abs(pz - p0), np.abs(pr - p0)
    print(f"z-rotation by {a:.3f}: max change {dz.max():.3e} (entry {dz.argmax()}: {p0[dz.argmax()]:.3e} -> {pz[dz.argmax()]:.3e});"
          f"  general rotation: max change {dr.max():.3e}")
    worst = max(worst, dz.max(), dr.max())
print("changes of the invariants that do not vanish:", np.abs(pz - p0)[p0 != 0].max())
if worst > 1e-9:
    print(f"VIOLATION: P invariants of a mirror-symmetric function change by up to {worst:.1e} under rotation "
          "(rounding noise ~1e-16 in the vanishing bispectrum components is blown up by the cube root)")
    sys.exit(1)
print("ok")
sys.exit(0)
