import sys
import numpy as np
from chmpy.ext.elastic_tensor import ElasticTensor

C = np.diag([160.0, 160, 160, 80, 80, 80])
for i, j in ((0, 1), (0, 2), (1, 2)):
    C[i, j] = C[j, i] = 60.0
et = ElasticTensor(C)
try:
    inv = et.shape_descriptors(kind="youngs_modulus", l_max=4)
except Exception as e:  # TypeError today
    print("VIOLATION: ElasticTensor.shape_descriptors() cannot produce invariants:", repr(e))
    # what the body would do once the two wrong names are repaired (SHT(l_max), sht.analysis):
    from chmpy.shape.sht import SHT
    from chmpy.shape.shape_descriptors import make_invariants
    from chmpy.shape._sht import expand_coeffs_to_full
    from scipy.spatial.transform import Rotation
    sht = SHT(12)
    x, y, z = sht.grid_cartesian
    pts = np.c_[x.ravel(), y.ravel(), z.ravel()]
    R = Rotation.from_euler("zyx", [0.3, 1.1, -0.7]).as_matrix()
    f = lambda p: et.youngs_modulus(p)
    try:
        v0 = np.asarray(f(pts)).reshape(x.shape)
        v1 = np.asarray(f(pts @ R)).reshape(x.shape)
        c0, c1 = sht.analysis(v0), sht.analysis(v1)
        as_written0 = make_invariants(12, c0, kinds="N")   # real-layout coefficients passed unexpanded
        as_written1 = make_invariants(12, c1, kinds="N")
        good0 = make_invariants(12, expand_coeffs_to_full(12, c0), kinds="N")
        good1 = make_invariants(12, expand_coeffs_to_full(12, c1), kinds="N")
        print("   make_invariants on the unexpanded real-layout coefficients (as the method does):")
        print("      original", len(as_written0), "values", np.round(as_written0[:5], 3), " rotated tensor", np.round(as_written1[:5], 3))
        print("   with expand_coeffs_to_full first:")
        print("      original", len(good0), "values", np.round(good0[:5], 3), " rotated tensor", np.round(good1[:5], 3))
    except Exception as e2:
        print("   (could not evaluate follow-up illustration:", repr(e2), ")")
    sys.exit(1)
print("invariants:", inv)
print("ok")
sys.exit(0)
