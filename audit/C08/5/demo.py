import sys
import numpy as np
from chmpy.crystal.wulff import WulffSHT

facets = np.array([(1, 0, 0), (0, 1, 0), (0, 0, 1), (-1, 0, 0), (0, -1, 0), (0, 0, -1)], dtype=float)
energies = np.array([5.0, 1, 1, 1, 1, 1])
w = WulffSHT(facets, energies, l_max=4)
print("power_spectrum works:", np.round(w.power_spectrum(), 4))
try:
    k = w.invariants_kazhdan()
except AttributeError as e:
    print("VIOLATION: WulffSHT.invariants_kazhdan() cannot be computed at all:", repr(e))
    sys.exit(1)
print("invariants_kazhdan:", k)
if len(k) != 5:
    print("VIOLATION: wrong number of invariants")
    sys.exit(1)
print("ok")
sys.exit(0)
