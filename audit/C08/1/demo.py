import sys
import numpy as np
from scipy.special import sph_harm_y, roots_legendre
from scipy.spatial.transform import Rotation


def ylm_matrix(lmax, theta, phi):
    """standard (Condon-Shortley) complex Y_lm at points; column index l*(l+1)+m"""
    out = np.empty((theta.size, (lmax + 1) ** 2), dtype=complex)
    for l in range(lmax + 1):
        for m in range(-l, l + 1):
            out[:, l * (l + 1) + m] = sph_harm_y(l, m, theta, phi)
    return out


def rotate_coeffs(c, lmax, R):
    """Coefficients of g(x) = f(R^-1 x), f = sum c_lm Y_lm, by an exact
    Gauss-Legendre x uniform-phi quadrature (independent of chmpy)."""
    nt, nph = 2 * lmax + 4, 4 * lmax + 8
    x, w = roots_legendre(nt)
    ph = np.arange(nph) * 2 * np.pi / nph
    T, P = np.meshgrid(np.arccos(x), ph, indexing="ij")
    W = (np.repeat(w[:, None], nph, axis=1) * 2 * np.pi / nph).ravel()
    T, P = T.ravel(), P.ravel()
    xyz = np.c_[np.sin(T) * np.cos(P), np.sin(T) * np.sin(P), np.cos(T)]
    xr = xyz @ R
    g = ylm_matrix(lmax, np.arccos(np.clip(xr[:, 2], -1, 1)), np.arctan2(xr[:, 1], xr[:, 0])) @ c
    return (ylm_matrix(lmax, T, P).conj() * W[:, None]).T @ g


def random_real_coeffs(lmax, rng):
    """full (complex-layout) coefficients of a random REAL function"""
    c = np.zeros((lmax + 1) ** 2, dtype=complex)
    for l in range(lmax + 1):
        c[l * (l + 1)] = rng.normal()
        for m in range(1, l + 1):
            v = rng.normal() + 1j * rng.normal()
            c[l * (l + 1) + m] = v
            c[l * (l + 1) - m] = (-1) ** m * np.conj(v)
    return c


def to_real_layout(c, lmax):
    """chmpy real-transform layout: m-major, l = m..lmax, m >= 0"""
    return np.array([c[l * (l + 1) + m] for m in range(lmax + 1) for l in range(m, lmax + 1)])


from chmpy.shape.sht import SHT

rng = np.random.default_rng(0)
bad = False
for lmax in (2, 4, 8):
    sht = SHT(lmax)
    c = random_real_coeffs(lmax, rng)
    R = Rotation.random(random_state=rng).as_matrix()
    cr = rotate_coeffs(c, lmax, R)
    # sanity of the independent rotation: per-degree norms are preserved
    n0 = [np.linalg.norm(c[l * l:(l + 1) ** 2]) for l in range(lmax + 1)]
    n1 = [np.linalg.norm(cr[l * l:(l + 1) ** 2]) for l in range(lmax + 1)]
    assert np.allclose(n0, n1, atol=1e-11)
    k0 = sht.invariants_kazhdan(to_real_layout(c, lmax))
    k1 = sht.invariants_kazhdan(to_real_layout(cr, lmax))
    # what a per-degree energy must be: mean of f_l^2 over the sphere / (2l+1)
    exact = np.array(n0) ** 2 / (4 * np.pi) / (2 * np.arange(lmax + 1) + 1)
    rel = np.abs(k0 - k1) / np.maximum(np.abs(k0), 1e-300)
    print(f"lmax={lmax}: invariants_kazhdan original {k0}")
    print(f"         rotated function           {k1}")
    print(f"         exact per-degree energy    {exact}")
    print(f"         max relative change under rotation {rel.max():.3e}")
    if rel.max() > 1e-8:
        bad = True

# simplest case: Y_20 along z versus the same function turned onto the x axis
c = np.zeros(9, complex)
c[6] = 1.0
R = np.array([[0, 0, 1], [0, 1, 0], [-1, 0, 0.0]])
sht = SHT(2)
a = sht.invariants_kazhdan(to_real_layout(c, 2))[2]
b = sht.invariants_kazhdan(to_real_layout(rotate_coeffs(c, 2, R), 2))[2]
print(f"Y20 along z: {a:.6f}; same function along x: {b:.6f}; exact 1/(20 pi) = {1/(20*np.pi):.6f}")
if abs(a - b) > 1e-8:
    bad = True

if bad:
    print("VIOLATION: SHT.invariants_kazhdan changes when the function is rotated")
    sys.exit(1)
print("ok")
sys.exit(0)
