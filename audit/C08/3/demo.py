import sys
import logging
import numpy as np
from chmpy.shape.shape_descriptors import make_invariants
from chmpy.shape._invariants import p_invariants_c

logging.disable(logging.CRITICAL)
rng = np.random.default_rng(0)


def n_expected(lmax):
    """number of (l2<=l1<=l) triples kept by the selection rule, independent count"""
    n = 0
    for l2 in range(1, lmax + 1):
        for l1 in range(l2, lmax + 1):
            for l in range(l1, min(lmax, l1 + l2) + 1):
                if ((l % 2 == 0) or (l2 != l1)) and ((l2 % 2 == 0) or (l1 != l)):
                    n += 1
    return n


counts = {}
for lmax in range(20, 28):
    c = rng.normal(size=(lmax + 1) ** 2) + 1j * rng.normal(size=(lmax + 1) ** 2)
    counts[lmax] = len(make_invariants(lmax, c, kinds="P"))
    print(f"l_max={lmax}: {counts[lmax]} P invariants  (selection rule up to min(l_max,23): {n_expected(min(lmax, 23))})")

bad = False
# the library says (comment + warning text) that P invariants are supported up to l_max = 23
# and that beyond that the coefficients are cut back to that limit.
lmax = 24
c = rng.normal(size=(lmax + 1) ** 2) + 1j * rng.normal(size=(lmax + 1) ** 2)
p24 = make_invariants(lmax, c, kinds="P")
p_cut23 = p_invariants_c(np.ascontiguousarray(c[: 24 * 24]))   # degrees 0..23
p_cut22 = p_invariants_c(np.ascontiguousarray(c[: 23 * 23]))   # degrees 0..22
print("l_max=24 result equals P set of degrees 0..23:", p24.shape == p_cut23.shape and np.allclose(p24, p_cut23))
print("l_max=24 result equals P set of degrees 0..22:", p24.shape == p_cut22.shape and np.allclose(p24, p_cut22))
# degree-23 coefficients have no influence at all on the P part once l_max >= 24
c2 = c.copy()
c2[23 * 23: 24 * 24] *= 7.0
print("P part unchanged after scaling all degree-23 coefficients by 7:",
      np.array_equal(make_invariants(lmax, c2, kinds="P"), p24))
if counts[24] < counts[23] or counts[24] != n_expected(23):
    bad = True
if bad:
    print(f"VIOLATION: going from l_max=23 to l_max=24 REMOVES {counts[23]-counts[24]} P invariants; "
          "for l_max>23 the slice coefficients[:23*23] keeps only degrees 0..22, not the advertised 0..23")
    sys.exit(1)
print("ok")
sys.exit(0)
