"""C11: matrix -> string disagrees with matrix -> packed integer (-> string) when the
rotation block carries floating-point noise (e.g. it was obtained by converting the
library's own Cartesian form back to fractional axes in a hexagonal cell).
encode_symm_int rounds the rotation entries, encode_symm_str tests `c != 0`."""
import sys
import numpy as np
from chmpy.crystal import Crystal, SpaceGroup, UnitCell, AsymmetricUnit, SymmetryOperation
from chmpy.core.element import Element

uc = UnitCell.from_lengths_and_angles([5, 5, 9], [90, 90, 120], unit="degrees")
sg = SpaceGroup(169)  # P6_1
c = Crystal(uc, sg, AsymmetricUnit([Element["C"]], np.array([[0.1, 0.2, 0.3]])))
D, I = np.asarray(uc.direct), np.asarray(uc.inverse)

bad = 0
for op, (Rc, tc) in zip(c.symmetry_operations, c.cartesian_symmetry_operations()):
    # Cartesian form (x_c' = x_c @ Rc + tc)  ->  fractional matrix form
    Rf = (D @ Rc @ I).T
    tf = tc @ I
    assert np.allclose(Rf, op.rotation, atol=1e-12) and np.allclose(tf, op.translation)
    op2 = SymmetryOperation(Rf, tf)
    via_int = str(SymmetryOperation.from_integer_code(op2.integer_code))
    direct = str(op2)
    same_op = SymmetryOperation.from_string_code(direct) == op
    ok = (op2 == op) and hash(op2) == hash(op) and direct == str(op) and via_int == direct and same_op
    if not ok:
        bad += 1
        print(
            f"reference {str(op):18s} max|dR|={abs(Rf - op.rotation).max():.1e}  "
            f"equal={op2 == op} hash_equal={hash(op2) == hash(op)}  "
            f"matrix->str={direct!r}  matrix->int->str={via_int!r}  "
            f"str re-read is same op: {same_op}"
        )
if bad:
    print(f"{bad} operations: equal/hash-equal operations print differently and "
          "matrix->string gives a different operation than matrix->integer->string")
    sys.exit(1)
print("ok")
