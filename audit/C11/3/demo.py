"""C11: matrix -> string conversion crashes for a float32 (or longdouble) translation
vector although matrix -> packed integer works for the same object."""
import sys
import numpy as np
from chmpy.crystal import SymmetryOperation

bad = 0
for dtype in (np.float64, np.float32, np.longdouble):
    op = SymmetryOperation(np.eye(3), np.array([0.5, 0.0, 0.25], dtype=dtype))
    code = op.integer_code
    ref = SymmetryOperation.from_integer_code(code)
    try:
        s = str(op)
        ok = s == str(ref) == "1/2+x,+y,1/4+z"
        print(dtype.__name__, "code", code, "str", s)
    except Exception as e:
        ok = False
        print(dtype.__name__, "code", code, "equal to reference:", op == ref,
              "but str() raises", type(e).__name__, e)
    bad += not ok
sys.exit(1 if bad else 0)
