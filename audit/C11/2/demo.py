"""C11 (Cartesian form): chmpy.fmt.crystal17.load_crystal17_geometry_string converts the
Cartesian symmetry matrices of a CRYSTAL17 geometry block to fractional axes with
(I.T @ R @ D.T).T = D R^T I.  For lattice rows D the correct conversions are
(D R I).T  (matrices applied to row vectors) or I.T R D.T (applied to column vectors).
The formula used is neither, so for a hexagonal cell the operations that come back are
not the ones written, whichever convention the file uses; with column-vector matrices
it also turns P4_1 into P4_3 and breaks cubic groups."""
import sys
import numpy as np
from chmpy.crystal import Crystal, SpaceGroup, UnitCell
from chmpy.fmt.crystal17 import load_crystal17_geometry_string


def geometry_block(uc, sg, convention):
    D = np.asarray(uc.direct)
    I = np.linalg.inv(D)
    fmt = lambda v: " ".join(f"{x:.12f}" for x in v)
    lines = ["3 1 1 0 -1.0"] + [fmt(r) for r in D] + [str(len(sg))]
    for op in sg.symmetry_operations:
        R, t = np.asarray(op.rotation), np.asarray(op.translation)
        Rc = D.T @ R @ I.T  # acts on Cartesian column vectors: x_c' = Rc x_c
        M = Rc if convention == "column" else Rc.T  # Rc.T acts on row vectors
        # independent check that M really is the Cartesian form of op
        xf = np.array([0.13, 0.29, 0.41])
        xc = xf @ D
        img = (M @ xc if convention == "column" else xc @ M) + t @ D
        assert np.allclose(img, (R @ xf + t) @ D)
        lines += [fmt(r) for r in M] + [fmt(t @ D)]
    lines += ["1", "6 0.3 0.4 0.5"]
    return "\n".join(lines)


hexcell = UnitCell.from_lengths_and_angles([5, 5, 9], [90, 90, 120], unit="degrees")
tetcell = UnitCell.from_lengths_and_angles([5, 5, 9], [90, 90, 90], unit="degrees")
cases = [("P3", hexcell, SpaceGroup(143)), ("P6_1", hexcell, SpaceGroup(169)),
         ("P4_1", tetcell, SpaceGroup(76)), ("P2_13", UnitCell.cubic(6.0), SpaceGroup(198))]
status = {}
for name, uc, sg in cases:
    for conv in ("row", "column"):
        data = load_crystal17_geometry_string(geometry_block(uc, sg, conv))
        got = sorted(int(o.integer_code) for o in data["symmetry_operations"])
        exp = sorted(int(o.integer_code) for o in sg.symmetry_operations)
        try:
            res = str(Crystal.from_crystal17_opt_string(geometry_block(uc, sg, conv)).space_group)
        except ValueError as e:
            res = "ValueError: " + str(e).splitlines()[0]
        status[name, conv] = got == exp
        print(f"{name:6s} {conv:6s}-vector matrices: operations recovered={got == exp}  -> {res}")
        if got != exp:
            print("        read back:", [str(o) for o in data["symmetry_operations"]][:4], "...")

# the property needs at least one convention for which every group is recovered
consistent = [conv for conv in ("row", "column") if all(status[n, conv] for n, _, _ in cases)]
if not consistent:
    print("No matrix convention makes the Cartesian -> fractional conversion correct "
          "(hexagonal cells fail under both).")
    sys.exit(1)
print("ok, consistent convention:", consistent)
