"""C16 violation (SDF reading): SD data items ('> <TAG>' blocks; tag names are free
form) are splatted into the Molecule constructor as keyword arguments, so a data
item whose tag equals a constructor parameter breaks loading or silently changes
the molecule: 'positions'/'elements' -> TypeError, 'bonds' -> ValueError,
'labels' -> the per-atom label array is replaced by the data string."""
import os, sys, tempfile
import numpy as np
from chmpy.core.molecule import Molecule

tmp = tempfile.mkdtemp()
mols = [Molecule.from_arrays([8, 1, 1], [[0, 0, 0.1173], [0, 0.7572, -0.4692], [0, -0.7572, -0.4692]]),
        Molecule.from_arrays([6, 8], [[0, 0, 0], [0, 0, 1.128]])]
bad = False
for tag in ["ID", "positions", "elements", "bonds", "labels"]:
    text = "".join(m.to_sdf_string() + f"\n> <{tag}>\nsome value\n\n$$$$\n" for m in mols)
    p = os.path.join(tmp, "m.sdf")
    with open(p, "w") as f:
        f.write(text)
    try:
        r = Molecule.load(p)
        ok = ([m.molecular_formula for m in r] == ["H2O", "CO"]
              and all(len(np.atleast_1d(m.labels)) == len(m) and not isinstance(m.labels, str) for m in r))
        print(f"data tag <{tag}>: loaded {[m.molecular_formula for m in r]}, labels of first = {r[0].labels!r}"
              + ("" if ok else "   <-- VIOLATION"))
        bad |= not ok
    except Exception as e:
        print(f"data tag <{tag}>: VIOLATION {type(e).__name__}: {str(e)[:90]}")
        bad = True
sys.exit(1 if bad else 0)
