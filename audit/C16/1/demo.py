"""C16 violation: SDF counts line / bond lines lose the V2000 fixed-column layout
once any 3-column integer field needs three digits (>= 100 atoms, or >= 100 bond
lines, or atom index >= 100 in a bond line), and the file cannot be read back."""
import os, re, sys, tempfile
import numpy as np
from chmpy.core.molecule import Molecule

bad = False
tmp = tempfile.mkdtemp()

def report(tag, m):
    global bad
    text = m.to_sdf_string()
    lines = text.split("\n")
    counts = lines[3]
    # V2000 counts line: 11 fields of width 3 followed by ' V2000' -> 39 characters,
    # 'V2000' in columns 35-39, atom count in columns 1-3, bond count in columns 4-6
    ok_layout = (len(counts) == 39 and counts[33:39] == " V2000"
                 and counts[0:3].strip() == str(len(m)))
    print(f"[{tag}] counts line: {counts!r} (len {len(counts)}) layout ok: {ok_layout}")
    if not ok_layout:
        bad = True
    path = os.path.join(tmp, tag + ".sdf")
    m.save(path)
    try:
        back = Molecule.load(path)
        same = (not isinstance(back, list) and len(back) == len(m)
                and [e.atomic_number for e in back.elements] == [e.atomic_number for e in m.elements]
                and np.abs(back.positions - m.positions).max() <= 0.5001e-4)
        print(f"[{tag}] read back: {'same molecule' if same else 'DIFFERENT molecule'}")
        if not same:
            bad = True
    except Exception as e:
        print(f"[{tag}] read back FAILED: {type(e).__name__}: {e}")
        bad = True

rng = np.random.default_rng(1)
# (a) 100 atoms, no bonds (V2000 allows up to 999 atoms)
n = 100
m = Molecule.from_arrays(rng.integers(1, 10, size=n), np.round(rng.normal(size=(n, 3)) * 5, 4))
report("100_atoms", m)
# control: 99 atoms is fine
n = 99
m = Molecule.from_arrays(rng.integers(1, 10, size=n), np.round(rng.normal(size=(n, 3)) * 5, 4))
report("99_atoms_control", m)
# (b) only 51 atoms, but bonds assigned: 50 bonds are written as 100 bond lines
n = 51
m = Molecule.from_arrays([6] * n, np.c_[np.arange(n) * 1.5, np.zeros(n), np.zeros(n)], guess_bonds=True)
report("51_atoms_50_bonds", m)

sys.exit(1 if bad else 0)
