"""C16 (SDF text validity, bond block): when a molecule has bonds, to_sdf_string
lists every bond twice (i-j and j-i), so the bond count in the counts line is
double the true number, and each bond line carries bond type 0 (not a legal
V2000 bond type, legal are 1-8)."""
import sys
import numpy as np
from chmpy.core.molecule import Molecule

m = Molecule.from_arrays([8, 1, 1], [[0, 0, 0.1173], [0, 0.7572, -0.4692], [0, -0.7572, -0.4692]],
                         guess_bonds=True)
true_bonds = {tuple(sorted(k)) for k in m.bonds.keys()}
print("true bonds (0-based):", sorted(true_bonds))
lines = m.to_sdf_string().split("\n")
na, nb = int(lines[3][0:3]), int(lines[3][3:6])
print("counts line:", repr(lines[3]))
bond_lines = lines[4 + na: 4 + na + nb]
for l in bond_lines:
    print("bond line  :", repr(l))
pairs = [tuple(sorted((int(l[0:3]) - 1, int(l[3:6]) - 1))) for l in bond_lines]
types = [int(l[6:9]) for l in bond_lines]
bad = False
if nb != len(true_bonds):
    print(f"VIOLATION: counts line says {nb} bonds, molecule has {len(true_bonds)}")
    bad = True
if len(set(pairs)) != len(pairs):
    print("VIOLATION: the same atom pair appears in more than one bond line")
    bad = True
if any(t < 1 or t > 8 for t in types):
    print("VIOLATION: bond type field (columns 7-9) is", sorted(set(types)), "- V2000 allows 1..8")
    bad = True
sys.exit(1 if bad else 0)
