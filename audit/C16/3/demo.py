"""C16 violation: a molecule with zero atoms (which Molecule explicitly supports:
molecular_formula == 'empty', center_of_mass == 0) is written to SDF fine but
cannot be read back; and an SDF file containing a 'no-structure' record
(0 atoms, 0 bonds - legal and common in SD files) cannot be loaded at all, so the
other records are lost too.  The XYZ round trip of the empty molecule changes
positions from shape (0, 3) to shape (0,)."""
import os, sys, tempfile
import numpy as np
from chmpy.core.molecule import Molecule

bad = False
tmp = tempfile.mkdtemp()
empty = Molecule([], np.zeros((0, 3)))
print("empty molecule:", repr(empty.molecular_formula), "len", len(empty))

p = os.path.join(tmp, "empty.sdf")
empty.save(p)
print("SDF written:\n" + open(p).read())
try:
    back = Molecule.load(p)
    print("SDF read back: len", len(back), "positions shape", np.shape(back.positions))
    if len(back) != 0 or np.shape(back.positions) != (0, 3):
        bad = True
except Exception as e:
    print(f"VIOLATION: reading the SDF file back raises {type(e).__name__}: {e!r}")
    bad = True

# several records, the middle one has no structure
water = Molecule.from_arrays([8, 1, 1], [[0, 0, 0.1173], [0, 0.7572, -0.4692], [0, -0.7572, -0.4692]])
co = Molecule.from_arrays([6, 8], [[0, 0, 0], [0, 0, 1.128]])
p = os.path.join(tmp, "three.sdf")
with open(p, "w") as f:
    for m in (water, empty, co):
        f.write(m.to_sdf_string() + "\n$$$$\n")
try:
    mols = Molecule.load(p)
    print("3-record file ->", [len(m) for m in mols])
    if [len(m) for m in mols] != [3, 0, 2]:
        bad = True
except Exception as e:
    print(f"VIOLATION: 3-record file (3, 0, 2 atoms) raises {type(e).__name__}: {e!r}")
    bad = True

p = os.path.join(tmp, "empty.xyz")
empty.save(p)
back = Molecule.load(p)
print("XYZ read back: len", len(back), "positions shape", np.shape(back.positions))
if np.shape(back.positions) != (0, 3):
    print("VIOLATION: XYZ round trip of the empty molecule gives positions of shape",
          np.shape(back.positions), "instead of (0, 3)")
    bad = True
sys.exit(1 if bad else 0)
