"""C16 violation (multi-record SDF reading): an SD file whose last '$$$$' line is
followed by a blank line (very common: files produced by concatenation, editors,
'echo >>', several toolkits) cannot be loaded: the whitespace-only tail after the
final delimiter is treated as another record and indexing its counts line fails.
Only a tail of exactly zero characters is skipped."""
import os, sys, tempfile
from chmpy.core.molecule import Molecule

tmp = tempfile.mkdtemp()
mols = [Molecule.from_arrays([8, 1, 1], [[0, 0, 0.1173], [0, 0.7572, -0.4692], [0, -0.7572, -0.4692]]),
        Molecule.from_arrays([6, 8], [[0, 0, 0], [0, 0, 1.128]]),
        Molecule.from_arrays([2], [[1.0, 2.0, 3.0]])]
body = "".join(m.to_sdf_string() + "\n$$$$\n" for m in mols)

bad = False
for tag, text in [("standard ending", body), ("one blank line after final $$$$", body + "\n"),
                  ("spaces + newline after final $$$$", body + "  \n")]:
    p = os.path.join(tmp, "m.sdf")
    with open(p, "w") as f:
        f.write(text)
    try:
        r = Molecule.load(p)
        got = [m.molecular_formula for m in r]
        print(f"{tag}: {got}")
        if got != ["H2O", "CO", "He"]:
            bad = True
    except Exception as e:
        print(f"{tag}: VIOLATION {type(e).__name__}: {e}")
        bad = True
sys.exit(1 if bad else 0)
