"""C19: prune_degenerate_points uses an ABSOLUTE distance threshold (1e-5), so
(a) scaling all energies by s does not scale the shape (small s: open mesh, then IndexError),
(b) a legitimately exposed facet whose edges are shorter than 1e-5 crashes the construction
    or makes wulff_triangles a float array."""
import sys
from collections import Counter
import numpy as np
from chmpy.crystal.wulff import WulffConstruction


def is_closed(tris):
    c = Counter()
    for t in tris:
        for i in range(3):
            c[(int(t[i]), int(t[(i + 1) % 3]))] += 1
    return all(n == 1 and c.get((b, a), 0) == 1 for (a, b), n in c.items())


def volume(V, T):
    T = np.asarray(T).astype(int)
    return np.einsum('ij,ij->i', V[T[:, 0]], np.cross(V[T[:, 1]], V[T[:, 2]])).sum() / 6


cube = np.array([(1, 0, 0), (0, 1, 0), (0, 0, 1), (-1, 0, 0), (0, -1, 0), (0, 0, -1)], float)
octa = np.array([(i, j, k) for i in (1, -1) for j in (1, -1) for k in (1, -1)], float) / np.sqrt(3)
dod = np.array([(1, 1, 0)], float) / np.sqrt(2)
N = np.vstack([cube, octa])
e = np.r_[np.ones(6), 1.2 * np.ones(8)]          # truncated cube, 24 simple vertices

bad = False
w1 = WulffConstruction(N, e)
v1 = volume(w1.wulff_vertices, w1.wulff_triangles)
print(f"s=1: closed={is_closed(w1.wulff_triangles)} volume={v1:.6f}")
for s in (1e-3, 1e-5, 1e-6):
    try:
        w = WulffConstruction(N, s * e)
        closed = is_closed(w.wulff_triangles)
        v = volume(w.wulff_vertices, w.wulff_triangles)
        ok = closed and abs(v / s ** 3 - v1) < 1e-9
        print(f"s={s}: closed={closed} volume/s^3={v / s ** 3:.6f} ntri={len(w.wulff_triangles)} (s=1: {len(w1.wulff_triangles)})")
    except Exception as ex:
        ok = False
        print(f"s={s}: {type(ex).__name__}: {ex}")
    bad |= not ok

# (b) unit-size shapes with one tiny facet
for name, NN, ee in [
    ("cube + (111) corner cut 1e-6 deep", np.vstack([cube, octa[:1]]), np.r_[np.ones(6), np.sqrt(3) - 1e-6]),
    ("cube + (110) edge chamfer 3e-6 deep", np.vstack([cube, dod]), np.r_[np.ones(6), np.sqrt(2) - 3e-6]),
]:
    try:
        w = WulffConstruction(NN, ee)
        T = w.wulff_triangles
        ok = T.dtype.kind == 'i' and is_closed(T)
        print(f"{name}: triangles dtype={T.dtype} closed={is_closed(T)}")
    except Exception as ex:
        ok = False
        print(f"{name}: {type(ex).__name__}: {ex}")
    bad |= not ok

if bad:
    print("VIOLATION: absolute 1e-5 pruning threshold breaks scaling / small facets")
    sys.exit(1)
sys.exit(0)
