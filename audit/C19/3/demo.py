"""C19: with non-unit facet normals the shape is neither {x: n.x <= e} nor
{x: n/|n| . x <= e}: _populate_duals uses n/(e |n|^2) as dual point (plane distance e|n|)
while the vertices are then rescaled with n_0 . x = e_0 for the first facet of each simplex."""
import sys, itertools
import numpy as np
from scipy.spatial import ConvexHull
from chmpy.crystal.wulff import WulffConstruction


def brute_vertices(N, e):
    out = []
    for t in itertools.combinations(range(len(N)), 3):
        A = N[list(t)]
        if abs(np.linalg.det(A)) < 1e-10:
            continue
        x = np.linalg.solve(A, e[list(t)])
        if np.all(N @ x <= e + 1e-9) and not any(np.linalg.norm(x - u) < 1e-8 for u in out):
            out.append(x)
    return np.array(out)


def volume(V, T):
    return np.einsum('ij,ij->i', V[T[:, 0]], np.cross(V[T[:, 1]], V[T[:, 2]])).sum() / 6


def same_set(A, B):
    return len(A) == len(B) and all(np.min(np.linalg.norm(B - a, axis=1)) < 1e-8 for a in A)


cube = np.array([(1, 0, 0), (0, 1, 0), (0, 0, 1), (-1, 0, 0), (0, -1, 0), (0, 0, -1)], float)
o3 = np.array([(i, j, k) for i in (1, -1) for j in (1, -1) for k in (1, -1)], float)   # |n| = sqrt3
N = np.vstack([cube, o3])
e = np.r_[np.ones(6), 0.9 * np.ones(8)]      # |x_i|<=1 and +-x+-y+-z <= 0.9  (octahedron, the cube facets are hidden)

w = WulffConstruction(N, e)
V = np.unique(np.round(w.wulff_vertices, 9), axis=0)
vol = volume(w.wulff_vertices, w.wulff_triangles)

refA = brute_vertices(N, e)                                             # n.x <= e
Nu = N / np.linalg.norm(N, axis=1)[:, None]
refB = brute_vertices(Nu, e)                                            # n_hat.x <= e
nfac = (np.abs(V @ N.T - e) < 1e-8).sum(axis=1)
print(f"library: {len(V)} distinct vertices, mesh volume {vol:.6f}, hull volume {ConvexHull(V).volume:.6f}, facets through each vertex: min {nfac.min()} max {nfac.max()}")
print(f"convention n.x<=e      : {len(refA)} vertices, volume {ConvexHull(refA).volume:.6f}, equal to library: {same_set(V, refA)}")
print(f"convention n/|n|.x<=e  : {len(refB)} vertices, volume {ConvexHull(refB).volume:.6f}, equal to library: {same_set(V, refB)}")

# control: same planes given with unit normals (e rescaled) -> library is right
wu = WulffConstruction(Nu, e / np.linalg.norm(N, axis=1))
Vu = np.unique(np.round(wu.wulff_vertices, 9), axis=0)
print(f"control, unit normals with e/|n|: equal to n.x<=e reference: {same_set(Vu, refA)}")

if not same_set(V, refA):
    print("VIOLATION: shape for non-unit normals is not {x : n_i.x <= e_i}")
    sys.exit(1)
sys.exit(0)
