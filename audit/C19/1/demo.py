"""C19: degenerate vertices (>= 4 facets meeting) are emitted once per dual-hull
triangle, so the vertex list has duplicates and the mesh
(wulff_vertices, wulff_triangles) is not closed."""
import sys, itertools
from collections import Counter
import numpy as np
from chmpy.crystal.wulff import WulffConstruction


def brute_vertices(N, e):
    out = []
    for t in itertools.combinations(range(len(N)), 3):
        A = N[list(t)]
        if abs(np.linalg.det(A)) < 1e-10:
            continue
        x = np.linalg.solve(A, e[list(t)])
        if np.all(N @ x <= e + 1e-9) and not any(np.linalg.norm(x - u) < 1e-8 for u in out):
            out.append(x)
    return np.array(out)


def is_closed(tris):
    c = Counter()
    for t in tris:
        for i in range(3):
            c[(int(t[i]), int(t[(i + 1) % 3]))] += 1
    return all(n == 1 and c.get((b, a), 0) == 1 for (a, b), n in c.items())


octa = np.array([(i, j, k) for i in (1, -1) for j in (1, -1) for k in (1, -1)], float) / np.sqrt(3)
cube = np.array([(1, 0, 0), (0, 1, 0), (0, 0, 1), (-1, 0, 0), (0, -1, 0), (0, 0, -1)], float)
cases = {
    "octahedron {111}": (octa, np.ones(8)),
    "cuboctahedron {100}+{111}": (np.vstack([cube, octa]), np.r_[np.ones(6), 2 / np.sqrt(3) * np.ones(8)]),
}
bad = False
for name, (N, e) in cases.items():
    w = WulffConstruction(N, e)
    ref = brute_vertices(N, e)
    V = w.wulff_vertices
    ndistinct = len(np.unique(np.round(V, 9), axis=0))
    closed = is_closed(w.wulff_triangles)
    print(f"{name}: library lists {len(V)} vertices ({ndistinct} distinct), "
          f"half-space intersection has {len(ref)}; index mesh closed: {closed}; repr {w!r}")
    if len(V) != len(ref) or not closed:
        bad = True
if bad:
    print("VIOLATION: duplicated vertices / open mesh for shapes with degenerate vertices")
    sys.exit(1)
sys.exit(0)
