"""C19 (front end): expand_symmetry_related_planes transforms Miller indices with
hkl @ R.T (R applied to hkl as a column vector) instead of hkl @ R (= hkl @ R^-1 over the group).
For hexagonal/trigonal axes R.T is not in the group, so the set of half-spaces fed to the
Wulff construction is not the symmetry-equivalent set: {100} expands to (100),(010),(110)
instead of (100),(010),(1-10)."""
import sys
import numpy as np
from chmpy.crystal import SpaceGroup, UnitCell
from chmpy.crystal.wulff import expand_symmetry_related_planes, WulffConstruction

bad = False
for num in (143, 168, 191, 14, 225):
    sg = SpaceGroup(num)
    hkl = np.array([[1, 0, 0]])
    got, en = expand_symmetry_related_planes(hkl, np.array([1.0]), sg)
    got = set(tuple(int(round(v)) for v in x) for x in got)
    ref = set()
    for s in sg.symmetry_operations:
        h = np.rint(hkl[0] @ np.linalg.inv(np.array(s.rotation, float))).astype(int)
        ref.add(tuple(int(v) for v in h))
        ref.add(tuple(int(-v) for v in h))       # the function always adds the Friedel mate
    ok = got == ref
    print(f"SG {num} {sg.symbol}: {'ok' if ok else 'WRONG'}  library={sorted(got)}  expected={sorted(ref)}")
    bad |= not ok

# consequence for the shape: hexagonal prism {100}+{001} in P6/mmm
uc = UnitCell.from_lengths_and_angles([5.0, 5.0, 8.0], [90, 90, 120], unit="degrees")
sg = SpaceGroup(191)
hkl, en = expand_symmetry_related_planes(np.array([[1, 0, 0], [0, 0, 1]]), np.array([1.0, 1.0]), sg)
nrm = hkl @ uc.reciprocal_lattice
nrm /= np.linalg.norm(nrm, axis=1)[:, None]
w = WulffConstruction(nrm, en)
T = w.wulff_triangles
V = w.wulff_vertices
vol = np.einsum('ij,ij->i', V[T[:, 0]], np.cross(V[T[:, 1]], V[T[:, 2]])).sum() / 6
expected = 2 * (6 * np.tan(np.pi / 6))   # regular hexagonal prism, apothem 1, height 2
print(f"P6/mmm {{100}}+{{001}} e=1: library volume {vol:.6f}, regular hexagonal prism {expected:.6f}")
ang = sorted(set(np.round(np.degrees(np.arctan2(nrm[:, 1], nrm[:, 0])), 3)[np.abs(nrm[:, 2]) < 1e-9]))
print("prism normal azimuths:", ang)
bad |= abs(vol - expected) > 1e-8
if bad:
    print("VIOLATION: symmetry expansion of facets is wrong for hexagonal axes")
    sys.exit(1)
sys.exit(0)
