"""Adjacent to C19 (input reader of WulffConstruction.from_gmf_and_crystal):
GMF.from_file passes (hkl, energies, cuts) positionally to a dataclass declared
(hkl, cuts, energies), so gmf.energies holds the shift/cut values and gmf.cuts the
surface energies.  from_gmf_and_crystal then builds the Wulff shape from the shifts
(often 0.0 -> division by zero)."""
import sys, tempfile, os
import numpy as np
from chmpy.fmt.gmf import GMF

text = """title: demo
name: demo
space: P 1
cell: 5.0 5.0 5.0 90.0 90.0 90.0
morph: unrelaxed equilibrium

miller: 1 0 0
 0.2500 0.1100 -1.0000 0.1000 -0.9000
miller: 0 1 0
 0.5000 0.2200 -2.0000 0.2000 -1.8000
miller: 0 0 1
 0.0000 0.3300 -3.0000 0.3000 -2.7000
"""
with tempfile.TemporaryDirectory() as d:
    p = os.path.join(d, "demo.gmf")
    open(p, "w").write(text)
    g = GMF.from_file(p)
print("hkl      ", g.hkl.tolist())
print("energies ", g.energies.tolist(), "(file: relaxed surface energies 0.1, 0.2, 0.3)")
print("cuts     ", g.cuts.tolist(), "(file: shifts 0.25, 0.5, 0.0)")
if not np.allclose(g.energies, [0.1, 0.2, 0.3]):
    print("VIOLATION: GMF.energies contains the shift column; energies and cuts are swapped")
    sys.exit(1)
sys.exit(0)
