"""C03 / atom_group_surroundings: `atoms` is documented as a group of atoms *in the
asymmetric unit*, but it is used as an index into symmetry_unique_molecules()[0].
Whenever molecule 0's atom order is not the asymmetric-unit order (Z' > 1, or a
molecule on a special position) the wrong centre is used (or IndexError)."""
import sys
import numpy as np
from chmpy.crystal import Crystal, UnitCell, SpaceGroup, AsymmetricUnit
from chmpy.core.element import Element

T = "/dev/shm/wt3_C03/src/chmpy/tests/test_files/"
bad = 0


def centre_matches_asym(c, atoms, central):
    els, pos = central
    want_els = c.asymmetric_unit.atomic_numbers[atoms]
    if list(els) != list(want_els):
        return False, f"centre elements {list(els)} != asymmetric unit elements {list(want_els)}"
    d = c.to_fractional(np.asarray(pos)) - c.asymmetric_unit.positions[atoms]
    d -= np.round(d)
    if np.abs(d).max() > 1e-6:
        return False, "centre positions are not (lattice images of) the requested asymmetric-unit atoms"
    return True, "ok"


# (a) real data: ice II test file, 12 waters in the asymmetric unit; atoms 3,4,5 = second water
c = Crystal.load(T + "iceII.cif")
atoms = [3, 4, 5]
print("ice II asymmetric unit atoms 3,4,5:", c.asymmetric_unit.labels[atoms], c.asymmetric_unit.atomic_numbers[atoms])
try:
    central, surround = c.atom_group_surroundings(atoms, radius=4.0)
    ok, msg = centre_matches_asym(c, atoms, central)
    print("  ->", msg)
    bad += not ok
except Exception as e:
    print("  -> raised", repr(e))
    bad += 1

# (b) Cl-C#C-Cl sitting on an inversion centre of P-1: asymmetric unit = [C, Cl]
uc = UnitCell.from_lengths_and_angles([6, 7, 8], np.radians([80, 95, 100]))
asym = AsymmetricUnit([Element["C"], Element["Cl"]],
                      np.array([[0.56, 0.53, 0.52], [0.72, 0.61, 0.573]]))
c = Crystal(uc, SpaceGroup(2), asym)
atoms = [0, 1]
central, surround = c.atom_group_surroundings(atoms, radius=4.0)
ok, msg = centre_matches_asym(c, atoms, central)
print("C2Cl2 on -1, atoms [0, 1] (C, Cl of the asymmetric unit) ->", msg)
bad += not ok
if not ok:
    # the asymmetric-unit Cl (bonded to the centre C, 1.6 A away) is then reported as a 'surrounding' atom
    clpos = c.to_cartesian(asym.positions[1])
    d = np.linalg.norm(surround[1] - clpos, axis=1).min()
    print("   requested atom Cl1 appears among the surroundings at distance", d)

sys.exit(1 if bad else 0)
