"""C03, point centre: Crystal.atoms_in_radius documents `origin` as
'the origin in fractional coordinates' but converts it with to_fractional() and queries the
Cartesian KD-tree with it, i.e. it is treated as a Cartesian point in Angstroms.  For any
origin other than (0,0,0) the atoms returned are those around a different point."""
import sys
import numpy as np
from chmpy.crystal import Crystal, UnitCell, SpaceGroup, AsymmetricUnit
from chmpy.core.element import Element

uc = UnitCell.from_lengths_and_angles([10.0, 11.0, 12.0], np.radians([90, 105, 90]))
frac = np.array([[0.50, 0.50, 0.50],    # C  in the middle of the cell
                 [0.06, 0.045, 0.04]])  # O  ~0.5 A from the cell corner
c = Crystal(uc, SpaceGroup(1), AsymmetricUnit([Element["C"], Element["O"]], frac))

origin = (0.5, 0.5, 0.5)           # documented meaning: fractional -> the cell centre, where C sits
radius = 1.0
res = c.atoms_in_radius(radius, origin=origin)

# independent expectation under the documented (fractional) meaning
centre = np.array(origin) @ uc.direct
exp = []
for h in (-1, 0, 1):
    for k in (-1, 0, 1):
        for l in (-1, 0, 1):
            p = (frac + (h, k, l)) @ uc.direct
            for z, d in zip((6, 8), np.linalg.norm(p - centre, axis=1)):
                if d <= radius:
                    exp.append(z)
print("origin=(0.5,0.5,0.5) fractional = cartesian", np.round(centre, 3))
print("expected elements within 1 A:", sorted(exp))
print("library returned elements   :", sorted(res["element"].tolist()), "at", np.round(res["cart_pos"], 3).tolist())
sys.exit(0 if sorted(exp) == sorted(res["element"].tolist()) else 1)
