"""C03 'the centre's own atoms excluded' for a molecule centre.
Crystal.molecule_environment promises: 'Atoms closer than `threshold` to any atom in the
provided molecule will be excluded and considered part of the molecule.'  The loop does
    keep[idxs] = True;  if d < threshold: this_mol.append(nn); keep[this_mol] = False
so (1) the exclusion is only re-applied in iterations whose own atom matched - a later
molecule atom that is not on a crystal site switches all previously excluded atoms back on,
and (2) only the single nearest site of each atom is ever excluded, whatever `threshold` is."""
import sys
import numpy as np
from scipy.spatial.distance import cdist
from chmpy.crystal import Crystal
from chmpy.core.molecule import Molecule

T = "/dev/shm/wt3_C03/src/chmpy/tests/test_files/"
c = Crystal.load(T + "acetic_acid.cif")
m = c.symmetry_unique_molecules()[0]
bad = 0

# (1) same molecule, only its LAST atom (a hydrogen) moved by 0.1 A (e.g. a re-positioned H)
pos = m.positions.copy()
pos[-1] += np.array([0.1, 0.0, 0.0])
m1 = Molecule.from_arrays(m.atomic_numbers, pos)
_, els, env = c.molecule_environment(m1, radius=4.0, threshold=1e-3)
d = cdist(env, m1.positions).min(axis=1)
n = int((d < 1e-3).sum())
print("(1) last atom displaced: %d reported 'surrounding' atoms coincide (<1e-3 A) with atoms of the molecule (0 expected)" % n)
bad += n > 0
# control: displacing the FIRST atom instead behaves as documented
pos = m.positions.copy(); pos[0] += np.array([0.1, 0.0, 0.0])
m0 = Molecule.from_arrays(m.atomic_numbers, pos)
_, _, env0 = c.molecule_environment(m0, radius=4.0)
print("    control, first atom displaced instead: %d coincide" % int((cdist(env0, m0.positions).min(axis=1) < 1e-3).sum()))

# (2) heavy-atom skeleton of the molecule, threshold 1.2 A to absorb its hydrogens
heavy = np.where(m.atomic_numbers > 1)[0]
frag = Molecule.from_arrays(m.atomic_numbers[heavy], m.positions[heavy])
_, els, env = c.molecule_environment(frag, radius=4.0, threshold=1.2)
d = cdist(env, frag.positions).min(axis=1)
n = int((d < 1.2).sum())
print("(2) threshold=1.2: %d reported atoms are closer than the threshold to the molecule (0 expected); distances %s"
      % (n, np.round(np.sort(d[d < 1.2]), 3)))
bad += n > 0

sys.exit(1 if bad else 0)
