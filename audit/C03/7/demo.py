"""C03 (molecule centre, molecule-level query) 'none missing':
Crystal.symmetry_unique_dimers builds its lattice-translation window from the raw
asymmetric-unit coordinates (+- 2*radius, upper bound exclusive), but the molecules it
translates (unit_cell_molecules / symmetry_unique_molecules) have been wrapped so that their
centres lie in the [0,1) cell.  If the CIF lists the asymmetric unit a few cells away from
the origin (the same crystal!), the window is centred on the wrong place and neighbours
within the radius are dropped."""
import sys, logging
import numpy as np
from scipy.spatial.distance import cdist
from chmpy.crystal import Crystal, AsymmetricUnit

logging.disable(logging.CRITICAL)
T = "/dev/shm/wt3_C03/src/chmpy/tests/test_files/"
ref = Crystal.load(T + "acetic_acid.cif")
radius = 3.8
bad = 0
for shift in ([0, 0, 0], [0, -6, 0], [4, 0, -5]):
    c = Crystal(ref.unit_cell, ref.space_group,
                AsymmetricUnit(ref.asymmetric_unit.elements, ref.asymmetric_unit.positions + np.array(shift)))
    _, mol_dimers = c.symmetry_unique_dimers(radius=radius)
    got = len(mol_dimers[0])
    # independent count of neighbouring molecules of molecule 0 (nearest-atom distance in (0.1, radius))
    mol = c.symmetry_unique_molecules()[0]
    D = c.unit_cell.direct
    exp = 0
    for um in c.unit_cell_molecules():
        for h in range(-3, 4):
            for k in range(-5, 6):
                for l in range(-4, 5):
                    d = cdist(mol.positions, um.positions + np.array([h, k, l]) @ D).min()
                    exp += (0.1 < d < radius)
    print("asymmetric unit shifted by lattice vector %s: symmetry_unique_dimers finds %d neighbours of molecule 0, expected %d"
          % (shift, got, exp))
    bad += got != exp
sys.exit(1 if bad else 0)
