"""C03 (molecule centre, molecule-level query) 'none missing':
Crystal.molecular_shell searches lattice translations only in the window
[floor(com - r) - 1, ceil(com + r)] around the CENTRE OF MASS of the central molecule and
ignores the extent of the molecules.  With method='nearest_atom' a neighbour whose atoms are
within the radius can have its centre more than one cell beyond that window (elongated
molecule spanning several short cell axes) and is silently dropped."""
import sys
import numpy as np
from scipy.spatial.distance import cdist
from chmpy.crystal import Crystal, UnitCell, SpaceGroup, AsymmetricUnit
from chmpy.core.element import Element

a, b, cc = 4.5, 16.0, 12.0
n = 14                                    # a 14-atom carbon chain, 1.50 A spacing, tilted in the ab plane
pos = np.c_[np.linspace(-1.0, 2.0, n) * a, np.linspace(1.0, 15.0, n), np.full(n, 6.0)]
uc = UnitCell.from_lengths_and_angles([a, b, cc], np.radians([90, 90, 90]))
c = Crystal(uc, SpaceGroup(1), AsymmetricUnit([Element["C"]] * n, uc.to_fractional(pos)))
mol = c.symmetry_unique_molecules()[0]
assert len(c.unit_cell_molecules()) == 1 and len(mol) == n
radius = 3.8

# independent: P1, one molecule per cell -> neighbours are lattice translates of `mol`
exp = []
for h in range(-8, 9):
    for k in range(-4, 5):
        for l in range(-3, 4):
            if (h, k, l) == (0, 0, 0):
                continue
            d = cdist(mol.positions, mol.positions + np.array([h, k, l]) @ uc.direct).min()
            if d < radius:
                exp.append(((h, k, l), round(d, 3)))
shell = c.molecular_shell(mol_idx=0, radius=radius, method="nearest_atom")
got = []
for s in shell:
    t = np.round(uc.to_fractional(s.positions[0] - mol.positions[0])).astype(int)
    got.append(tuple(t.tolist()))
print("expected neighbours (translation, nearest-atom distance):", exp)
print("molecular_shell returned translations:", sorted(got))
missing = [e for e in exp if e[0] not in got]
print("missing:", missing)
sys.exit(1 if missing or len(got) != len(exp) else 0)
