"""C03 'none missing': Crystal.unit_cell_atoms merges sites closer than `tolerance`=1e-2
measured in *fractional* coordinates.  In a large cell this is Angstroms, not hundredths:
0.01 * 1000 A = 10 A for Crystal.from_molecule (cubic 1000 A box), 1.2 A for a 120 A cell.
Distinct atoms are fused into one site, so neighbourhood queries lose them."""
import sys
import numpy as np
from chmpy.crystal import Crystal, UnitCell, SpaceGroup, AsymmetricUnit
from chmpy.core.element import Element
from chmpy.core.molecule import Molecule

T = "/dev/shm/wt3_C03/src/chmpy/tests/test_files/"
bad = 0

# (a) the library's own front end: a water molecule boxed with Crystal.from_molecule
m = Molecule.load(T + "water.xyz").translated(np.array([5.0, 5.0, 5.0]))
c = Crystal.from_molecule(m)
o = m.positions[np.argmax(m.atomic_numbers)]
# independent: P1, 1000 A box -> the only atoms within 3 A of O are the three atoms of the molecule
exp = sorted(np.linalg.norm(m.positions - o, axis=1).tolist())
res = c.atoms_in_radius(3.0, origin=o)
got = sorted(np.linalg.norm(res["cart_pos"] - o, axis=1).tolist())
print("from_molecule(water): unit cell atoms", len(c.unit_cell_atoms()["element"]), "(3 expected), occupation", c.unit_cell_atoms()["occupation"])
print("  atoms_in_radius(3.0, O): got distances", np.round(got, 3), "expected", np.round(exp, 3))
bad += len(got) != len(exp)
s = c.atomic_surroundings(radius=3.0)
print("  atomic_surroundings(3.0): neighbour elements per centre", [x["neighbours"]["element"].tolist() for x in s],
      "expected 2 neighbours each")
bad += any(len(x["neighbours"]["element"]) != 2 for x in s)

# (b) an ordinary large cell (P1, 120 A cubic): C-H 1.08 A apart
uc = UnitCell.cubic(120.0)
cpos = np.array([60.0, 60.0, 60.0]); hpos = cpos + [1.08, 0, 0]
c = Crystal(uc, SpaceGroup(1), AsymmetricUnit([Element["C"], Element["H"]], uc.to_fractional(np.array([cpos, hpos]))))
s = c.atomic_surroundings(radius=2.0)
print("120 A cell, C-H 1.08 A: neighbours of C:", s[0]["neighbours"]["element"].tolist(), s[0]["neighbours"]["distance"].tolist(), "expected [1] [1.08]")
bad += len(s[0]["neighbours"]["element"]) != 1

sys.exit(1 if bad else 0)
