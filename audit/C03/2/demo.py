"""C03 'none duplicated': the site-merging pass of Crystal.unit_cell_atoms uses a
non-periodic KD-tree on coordinates wrapped into [0,1).  Symmetry images of a
special-position atom that land on opposite sides of a cell face (0.00003 vs 0.99997)
are never merged, so every neighbourhood query returns that atom two or three times."""
import sys
import numpy as np
from chmpy.crystal import Crystal, UnitCell, SpaceGroup, AsymmetricUnit
from chmpy.core.element import Element

# R-3m (166, hexagonal axes), Bi on the 3-fold axis (Wyckoff 6c) written with the usual
# 4-decimal CIF rounding of (1/3, 2/3, z)
uc = UnitCell.from_lengths_and_angles([5.0, 5.0, 14.0], np.radians([90, 90, 120]))
sg = SpaceGroup(166)
pos = np.array([[0.3333, 0.6667, 0.1]])
c = Crystal(uc, sg, AsymmetricUnit([Element["Bi"]], pos))

# independent construction of the crystal: all symmetry images, merged periodically
D = uc.direct
imgs = np.vstack([s.apply(pos) for s in sg.symmetry_operations])
imgs -= np.floor(imgs)
sites = []
for p in imgs:
    for q in sites:
        d = p - q
        d -= np.round(d)
        if np.linalg.norm(d @ D) < 0.05:   # 0.05 Angstrom, minimum-image
            break
    else:
        sites.append(p)
sites = np.array(sites)
print("independent unit cell: %d Bi sites (6c => 6 expected)" % len(sites))
print("library unit_cell_atoms: %d sites" % len(c.unit_cell_atoms()["element"]))


def brute(centre, radius):
    out = []
    rng = range(-4, 5)
    for h in rng:
        for k in rng:
            for l in rng:
                p = (sites + (h, k, l)) @ D
                d = np.linalg.norm(p - centre, axis=1)
                out.extend(d[(d <= radius)].tolist())
    return sorted(out)


bad = 0
# point query on the 3-fold axis through the cell origin, next to the image at (0,0,0.5667)
centre = np.array([0.0, 0.0, 0.5667]) @ D
res = c.atoms_in_radius(1.0, origin=centre)
exp = brute(centre, 1.0)
print("atoms_in_radius(1.0) around (0,0,0.5667): library %d atoms, expected %d" % (len(res["element"]), len(exp)))
if len(res["element"]):
    cp = res["cart_pos"]
    dd = np.linalg.norm(cp[:, None] - cp[None], axis=2) + 10 * np.eye(len(cp))
    print("  closest pair among reported atoms: %.5f A ; uc_atom ids %s cells %s" % (dd.min(), res["uc_atom"], res["cell"].tolist()))
bad += len(res["element"]) != len(exp)

# asymmetric-unit-atom query
sur = c.atomic_surroundings(radius=6.0)[0]["neighbours"]
exp = [d for d in brute(pos[0] @ D, 6.0) if d > 1e-3]
print("atomic_surroundings(6.0): library %d neighbours, expected %d" % (len(sur["distance"]), len(exp)))
bad += len(sur["distance"]) != len(exp)

sys.exit(1 if bad else 0)
