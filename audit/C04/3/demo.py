"""C04 violation (call sequence / non-default argument): the memoised connectivity and molecules
ignore the bonding tolerance they were computed with.

unit_cell_connectivity(), unit_cell_molecules() and symmetry_unique_molecules() cache their first
result in _uc_graph / _unit_cell_molecules / _symmetry_unique_molecules without recording the
`bond_tolerance` (or `covalent_radii`) argument.  A later call with a different tolerance silently
returns the molecules of the first call, so the returned 'molecules' are not the molecules of the
crystal for the requested bonding criterion: wrong number (not Z' x n_symops), atoms of different
molecules lumped together, pairs beyond bonding distance treated as bonded.
"""
import sys
import numpy as np
from scipy.sparse.csgraph import connected_components
from scipy.spatial.distance import cdist
from chmpy.crystal import Crystal
from chmpy.tests import TEST_FILES

bad = False


def independent_fragments(mol, tol):
    cov = np.array([e.cov for e in mol.elements])
    d = cdist(mol.positions, mol.positions)
    adj = (d > 1e-3) & (d < cov[:, None] + cov[None, :] + tol)
    return connected_components(adj, directed=False)[0]


fresh = Crystal.load(TEST_FILES["acetic_acid.cif"])
ref = fresh.unit_cell_molecules(bond_tolerance=0.4)
print("fresh crystal, bond_tolerance=0.4 :", len(ref), "molecules of sizes", [len(m) for m in ref])

c = Crystal.load(TEST_FILES["acetic_acid.cif"])
first = c.unit_cell_molecules(bond_tolerance=0.0)     # strict criterion: X-H bonds are not bonds any more
print("same crystal, first call tol=0.0  :", len(first), "fragments of sizes", [len(m) for m in first])
second = c.unit_cell_molecules()                      # default arguments
uniq = c.symmetry_unique_molecules()
n_ops = len(c.space_group.symmetry_operations)
print("then unit_cell_molecules() [default 0.4]:", len(second), "molecules of sizes", [len(m) for m in second])
print("then symmetry_unique_molecules() [default 0.4]:", [m.molecular_formula for m in uniq])
if len(second) != len(ref) or len(second) != n_ops * 1 or sorted(len(m) for m in second) != [8] * 4:
    print(f"VIOLATION: {len(second)} 'molecules' returned for the default bond_tolerance=0.4, expected "
          f"Z' x n_symops = 1 x {n_ops} whole C2H4O2 molecules; bonded atoms (e.g. C-H 1.08 A) are in different molecules")
    bad = True

c = Crystal.load(TEST_FILES["acetic_acid.cif"])
first = c.unit_cell_molecules(bond_tolerance=1.0)     # loose criterion: hydrogen bonds count as bonds
print("new crystal, first call tol=1.0   :", len(first), "aggregates of sizes", [len(m) for m in first])
second = c.unit_cell_molecules(bond_tolerance=0.4)
print("then unit_cell_molecules(bond_tolerance=0.4):", len(second), "molecules of sizes", [len(m) for m in second])
for i, m in enumerate(second):
    nfrag = independent_fragments(m, 0.4)
    print(f"   molecule {i}: {len(m)} atoms, {nfrag} fragment(s) under the requested tolerance 0.4")
    if nfrag != 1:
        bad = True
if len(second) != len(ref):
    bad = True

# the reverse order is stale as well
c = Crystal.load(TEST_FILES["acetic_acid.cif"])
c.unit_cell_molecules()
later = c.unit_cell_molecules(bond_tolerance=1.0)
print("default call first, then bond_tolerance=1.0:", len(later), "molecules (a fresh crystal gives", len(first), ")")
if len(later) != len(first):
    bad = True
sys.exit(1 if bad else 0)
