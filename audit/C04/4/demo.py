"""C04 (weaker, consistency): unit_cell_molecules(bond_tolerance=t, covalent_radii=...) decides which atoms
form a molecule with the caller's bonding criterion, but builds each Molecule with
Molecule.from_arrays(..., guess_bonds=True), i.e. Molecule.guess_bonds() with its own default
tolerance 0.4 and default radii.  The bond table stored on the returned molecule therefore does not
contain the bonds that hold the molecule together: according to its own `bonds` the 'whole'
molecule is disconnected (Molecule.connected_fragments() splits it again).
"""
import sys
import numpy as np
from scipy.sparse.csgraph import connected_components
from chmpy.core.element import Element
from chmpy.crystal import Crystal, AsymmetricUnit, UnitCell, SpaceGroup

# ethane-like molecule with an elongated central C-C bond of 1.80 A (as in crowded hexaarylethanes);
# cov(C)+cov(C)+0.4 = 1.76 A, so the caller raises the tolerance to 0.5 A to keep the molecule whole
els = ["C", "C", "H", "H", "H", "H", "H", "H"]
pos = [[0, 0, 0], [1.80, 0, 0]]
for k in range(3):
    t = 2 * np.pi * k / 3
    pos.append([-0.36, 1.03 * np.cos(t), 1.03 * np.sin(t)])
    pos.append([2.16, 1.03 * np.cos(t + np.pi / 3), 1.03 * np.sin(t + np.pi / 3)])
pos = np.array(pos)
cell = UnitCell.from_lengths_and_angles([7.0, 8.0, 9.0], [90, 100, 90], unit="degrees")
frac = np.dot(pos, np.linalg.inv(cell.direct)) + [0.3, 0.2, 0.25]
crystal = Crystal(cell, SpaceGroup(14), AsymmetricUnit([Element[x] for x in els], frac))

tol = 0.5
mols = crystal.unit_cell_molecules(bond_tolerance=tol)
print(f"unit_cell_molecules(bond_tolerance={tol}): {len(mols)} molecules of sizes {[len(m) for m in mols]}")
bad = False
for i, m in enumerate(mols):
    cov = np.array([e.cov for e in m.elements])
    d = m.distance_matrix
    expected = (d > 1e-3) & (d < cov[:, None] + cov[None, :] + tol)      # independent: caller's criterion
    stored = m.bonds.toarray() > 0
    n_stored = connected_components(m.bonds, directed=False)[0]
    n_expected = connected_components(expected, directed=False)[0]
    missing = np.argwhere(np.triu(expected & ~stored))
    print(f"   molecule {i}: connected under the requested criterion: {n_expected == 1}; "
          f"components of molecule.bonds: {n_stored}; fragments from connected_fragments(): {len(m.connected_fragments())}; "
          f"bonds missing from molecule.bonds: {[(int(a), int(b), round(float(d[a, b]), 3)) for a, b in missing]}")
    if n_stored != 1 or len(missing):
        bad = True
if bad:
    print("VIOLATION: the molecules are whole for bond_tolerance=0.5, but their own bond tables lack the "
          "C-C bond (1.80 A) and describe two disconnected CH3 fragments")
sys.exit(1 if bad else 0)
