"""C04 violation: atoms vanish from unit_cell_molecules / symmetry_unique_molecules in large cells.

Crystal.unit_cell_atoms() merges "coincident" sites with a tolerance of 1e-2 measured in
FRACTIONAL coordinates (KDTree built on the fractional positions).  In a large cell that is a
large Cartesian distance (1000 A cell of Crystal.from_molecule -> 10 A; 120 A cell -> 1.2 A),
so chemically distinct, bonded atoms are merged into one site.  The unit-cell molecules then no
longer contain every asymmetric-unit atom and the merged 'molecules' have a different internal
geometry from their asymmetric-unit parent.
"""
import sys
import numpy as np
from chmpy.core.element import Element
from chmpy.core.molecule import Molecule
from chmpy.crystal import Crystal, AsymmetricUnit, UnitCell, SpaceGroup

bad = False


def audit(name, crystal):
    """independent expectation: in P1 nothing can coincide, so every asymmetric-unit atom must
    appear exactly once in the unit-cell molecules and exactly once in the unique molecules"""
    global bad
    n_asym = len(crystal.asymmetric_unit)
    cart = np.dot(np.asarray(crystal.asymmetric_unit.positions, float), crystal.unit_cell.direct)
    from scipy.spatial.distance import pdist
    print(f"{name}: {n_asym} asymmetric-unit atoms, closest pair {pdist(cart).min():.3f} A apart, "
          f"cell lengths {np.round(crystal.unit_cell.lengths, 2)}")
    uc_mols = crystal.unit_cell_molecules()
    uniq = crystal.symmetry_unique_molecules()
    in_uc = np.sort(np.concatenate([m.properties["asymmetric_unit_atoms"] for m in uc_mols]))
    in_uniq = np.sort(np.concatenate([m.properties["asymmetric_unit_atoms"] for m in uniq]))
    print("   unit cell molecules      :", uc_mols)
    print("   asym atoms in uc molecules    :", in_uc.tolist())
    print("   asym atoms in unique molecules:", in_uniq.tolist())
    if not np.array_equal(in_uc, np.arange(n_asym)) or not np.array_equal(in_uniq, np.arange(n_asym)):
        print("   VIOLATION: asymmetric-unit atoms",
              sorted(set(range(n_asym)) - set(in_uniq.tolist())),
              "belong to no molecule (merged away by the fractional tolerance)")
        bad = True


# (a) the library's own constructor: a molecule in its 1000 A box
els = ["O", "H", "H"]
pos = np.array([[5.0, 5.0, 5.0], [5.757, 5.586, 5.0], [4.243, 5.586, 5.0]])
water = Molecule.from_arrays([Element[x].atomic_number for x in els], pos)
audit("Crystal.from_molecule(water)", Crystal.from_molecule(water))

# (b) an ordinary P1 crystal with a large (protein sized) cell, 120 A
cell = UnitCell.cubic(120.0)
frac = pos / 120.0 + 0.3
audit("water, P1, a=120 A",
      Crystal(cell, SpaceGroup(1), AsymmetricUnit([Element[x] for x in els], frac)))

# (c) control: the same molecule in a 20 A cell behaves
cell = UnitCell.cubic(20.0)
frac = pos / 20.0 + 0.3
audit("water, P1, a=20 A (control)",
      Crystal(cell, SpaceGroup(1), AsymmetricUnit([Element[x] for x in els], frac)))

sys.exit(1 if bad else 0)
