"""C04 violation: symmetry copies of an atom on a special position are not merged when they wrap
to opposite faces of the unit cell.

Crystal.unit_cell_atoms() wraps all symmetry images into [0, 1) and then merges coincident sites
with a NON-periodic KDTree.  Copies of a special-position atom that land at e.g. x = 0.00003 and
x = 0.99997 (i.e. 0.0006 A apart through the cell face) are therefore kept as separate atoms.
With ordinary CIF precision this happens for every atom on a 3-fold axis written as
(0.6667, 0.3333, z) or (0.3333, 0.6667, z) in an R-centred space group (hexagonal axes): the
centring translations move the axis to the cell edge (0, 0, z).

Consequences for C04: one unit-cell molecule carries triplicated C and H atoms (it is not an
image of the unique molecule, its internal geometry differs), and it receives no `asym_mol_idx`
label (the library itself logs "No equivalent asymmetric unit molecule found!? -- this should
not happen!").
"""
import sys
import logging
import numpy as np
from chmpy.crystal import Crystal

logging.disable(logging.CRITICAL)

# CHCl3-like molecule on the 3-fold axis at (2/3, 1/3, z) of R3 (hexagonal axes); C and H on the axis,
# Cl on a general position.  Coordinates written with `prec` decimals like any CIF.
SYMOPS = """x,y,z
-y,x-y,z
-x+y,-x,z
x+2/3,y+1/3,z+1/3
-y+2/3,x-y+1/3,z+1/3
-x+y+2/3,-x+1/3,z+1/3
x+1/3,y+2/3,z+2/3
-y+1/3,x-y+2/3,z+2/3
-x+y+1/3,-x+2/3,z+2/3"""


def cif(axis_xy, prec):
    a, c = 10.0, 8.0
    ax = np.array(axis_xy, float)
    # hexagonal cell: a along x, b at 120 deg
    direct = np.array([[a, 0, 0], [-a / 2, a * np.sqrt(3) / 2, 0], [0, 0, c]])
    inv = np.linalg.inv(direct)
    C = np.array([ax[0], ax[1], 0.30])
    H = C + np.array([0, 0, 1.09]) @ inv
    Cl = C + np.array([1.66, 0.2, -0.58]) @ inv
    fmt = "%%s %%s %%.%df %%.%df %%.%df" % (prec, prec, prec)
    atoms = "\n".join(fmt % (l, e, *p) for l, e, p in (("C1", "C", C), ("H1", "H", H), ("Cl1", "Cl", Cl)))
    return f"""data_chcl3
_symmetry_space_group_name_H-M 'R 3 :H'
_space_group_IT_number 146
_cell_length_a {a}
_cell_length_b {a}
_cell_length_c {c}
_cell_angle_alpha 90
_cell_angle_beta 90
_cell_angle_gamma 120
loop_
_symmetry_equiv_pos_as_xyz
""" + "\n".join("'%s'" % s for s in SYMOPS.split("\n")) + """
loop_
_atom_site_label
_atom_site_type_symbol
_atom_site_fract_x
_atom_site_fract_y
_atom_site_fract_z
""" + atoms + "\n"


bad = False
for axis, prec in (((0.0, 0.0), 4), ((2 / 3, 1 / 3), 4), ((2 / 3, 1 / 3), 6), ((1 / 3, 2 / 3), 5)):
    crystal = Crystal.from_cif_string(cif(axis, prec))
    n_ops = len(crystal.space_group.symmetry_operations)
    # independent expectation: C and H on a 3-fold axis (site multiplicity n_ops/3), Cl general:
    # 3 + 3 + 9 = 15 atoms, 3 molecules of 5 atoms (Z' = 1/3, 9 operations)
    uc = crystal.unit_cell_atoms()
    mols = crystal.unit_cell_molecules()
    uniq = crystal.symmetry_unique_molecules()
    sizes = [len(m) for m in mols]
    labels = [m.properties.get("asym_mol_idx", None) for m in mols]
    formulas = [m.molecular_formula for m in mols]
    print(f"axis ({axis[0]:.4f},{axis[1]:.4f}) written with {prec} decimals: "
          f"{len(uc['frac_pos'])} unit-cell atoms (expected 15); molecule sizes {sizes} (expected [5, 5, 5]); "
          f"formulas {formulas}; asym_mol_idx labels {labels}")
    problem = len(uc["frac_pos"]) != 15 or sizes != [5, 5, 5] or any(l is None for l in labels)
    if problem:
        bad = True
        big = max(mols, key=len)
        d = big.distance_matrix[np.triu_indices(len(big), 1)]
        print("   VIOLATION: duplicated atoms %.5f A apart inside one molecule; unit cell sites of the copies:" % d.min())
        for k in big.properties["unit_cell_atoms"]:
            if uc["asym_atom"][k] in (0, 1):
                print("     ", uc["label"][k], np.round(uc["frac_pos"][k], 5))
# The library's own writers trigger it too: exact coordinates -> to_cif_string / to_shelx_string
# (12 decimals) -> read back
from chmpy.core.element import Element
from chmpy.crystal import AsymmetricUnit, UnitCell, SpaceGroup
a, c_len = 10.0, 8.0
cell = UnitCell.from_lengths_and_angles([a, a, c_len], [90, 90, 120], unit="degrees")
inv = np.linalg.inv(cell.direct)
C = np.array([2 / 3, 1 / 3, 0.30])
frac = np.array([C, C + np.array([0, 0, 1.09]) @ inv, C + np.array([1.66, 0.2, -0.58]) @ inv])
exact = Crystal(cell, SpaceGroup(146, choice="H"),
                AsymmetricUnit([Element[x] for x in ("C", "H", "Cl")], frac), titl="chcl3")
print("exact double precision 2/3, 1/3       :", [len(m) for m in exact.unit_cell_molecules()])
for name, again in (("to_cif_string -> from_cif_string    ", Crystal.from_cif_string(exact.to_cif_string())),
                    ("to_shelx_string -> from_shelx_string", Crystal.from_shelx_string(exact.to_shelx_string()))):
    sizes = [len(m) for m in again.unit_cell_molecules()]
    again.symmetry_unique_molecules()
    labels = [m.properties.get("asym_mol_idx", None) for m in again.unit_cell_molecules()]
    print(name, ":", sizes, "labels", labels)
    if sizes != [5, 5, 5] or None in labels:
        print("   VIOLATION after a save/load round trip")
        bad = True
sys.exit(1 if bad else 0)
