"""C07: the transform is NOT exact/invertible for every L: it breaks down for L >~ 1950.

AssocLegendre.evaluate_batch_cython starts every order-m recursion from
P_mm = a_mm * (1 - x*x) ** (0.5*m) in plain double precision.  For m of several hundred and
nodes towards the poles sin(theta)**m underflows to 0 (or to a denormal), and the upward
recursion in l then yields P_lm = 0 (or garbage) at latitudes where the true, orthonormal
P_lm is O(1).  Once L is large enough for such (l, m, theta) to exist (L >~ 1950) the
quadrature no longer reproduces the coefficients.

Full-transform measurements (random real coefficient vector c, analysis(synthesis(c)) - c):
    L=1024: max 7e-10   L=1500: max 1e-9   L=2048: max 0.48 (at l,m = 2040,734)   L=2500: max 2.0
Those take minutes, so this demo checks one coefficient the cheap way: for c = e_(l,m),
analysis(synthesis(c))[l,m] == sum_i w_i * Plm(x_i)**2, evaluated with the library's own
Legendre kernel on the library's own grid (run with --full to do the real round trip, ~4 min).
An independent extended-range (long double) recursion is used as the reference.
"""
import sys
import numpy as np
from chmpy.shape import SHT

L, l0, m0 = 2048, 2040, 734
sht = SHT(L)
x = sht.cos_theta
w = sht.weights

# independent reference: same three-term recursion but in x87 long double (exponent range 1e-4932)
ld = np.longdouble
xl = x.astype(ld)
amm = ld(1)
for k in range(1, m0 + 1):
    amm *= ld(2 * k + 1) / ld(2 * k)
amm = np.sqrt(amm / (4 * ld(np.pi)))
pm2 = amm * (1 - xl * xl) ** (ld(m0) / 2)
pm1 = np.sqrt(ld(2 * m0 + 3)) * xl * pm2
for l in range(m0 + 2, l0 + 1):
    a = np.sqrt(ld(4 * l * l - 1) / ld(l * l - m0 * m0))
    b = -np.sqrt(ld(2 * l + 1) * ld((l - 1) ** 2 - m0 * m0) / (ld(2 * l - 3) * ld(l * l - m0 * m0)))
    pm2, pm1 = pm1, a * xl * pm1 + b * pm2
ref = pm1.astype(float)
print("reference norm  sum_i w_i Plm(x_i)^2 =", float((w * ref ** 2).sum()), "(must be 1)")

# library values of the same P_lm on the same nodes
idx = sum(L + 1 - m for m in range(m0)) + (l0 - m0)
lib = np.empty_like(x)
for i, ct in enumerate(x):
    sht.plm.evaluate_batch(ct, result=sht.plm_work_array)
    lib[i] = sht.plm_work_array[idx]
norm = float((w * lib ** 2).sum())
worst = int(np.argmax(abs(lib - ref)))
print(f"library   norm  sum_i w_i Plm(x_i)^2 = {norm}  -> analysis(synthesis(e_lm))[l,m] for (l,m)=({l0},{m0})")
print(f"worst node: theta = {np.degrees(sht.theta[worst]):.3f} deg  library Plm = {lib[worst]!r}  reference = {ref[worst]!r}")
print("nodes where library returns exactly 0 but |true Plm| > 1e-3:", int(((lib == 0) & (abs(ref) > 1e-3)).sum()))

bad = abs(norm - 1.0) > 1e-8 or abs(lib - ref).max() > 1e-8

if "--full" in sys.argv:
    c = np.zeros(sht.nplm(), dtype=np.complex128)
    c[idx] = 1.0
    back = sht.analysis(sht.synthesis(c))
    print("full round trip: max |analysis(synthesis(e_lm)) - e_lm| =", abs(back - c).max(), " diagonal =", back[idx])
    bad = bad or abs(back - c).max() > 1e-8

if bad:
    print(f"VIOLATION: SHT({L}) does not reproduce coefficient (l,m)=({l0},{m0}); transform not exact for every L")
    sys.exit(1)
print("ok")
sys.exit(0)
