"""C07: point-wise evaluation (and the compiled Legendre kernel) is wrong at the poles.

chmpy.shape._sht.AssocLegendre.evaluate_batch_cython computes
(1 - x*x) ** (0.5*m).  At x = cos(theta) = +-1 the base is exactly 0 and the compiled
'**' goes through Cython's complex power, which raises TypeError inside a
'noexcept nogil' function: the error is only printed ("Exception ignored"), the result
buffer is left untouched, and SHT.evaluate_at_points then uses whatever stale numbers
were in sht.plm_work_array (np.empty garbage or the previous point's values).
"""
import sys
import numpy as np
from scipy.special import lpmv, gammaln
from chmpy.shape import SHT
from chmpy.shape._sht import AssocLegendre as CompiledPlm
from chmpy.shape.assoc_legendre import AssocLegendre as PythonPlm


def Y(l, m, theta, phi):
    am = abs(m)
    N = np.sqrt((2 * l + 1) / (4 * np.pi) * np.exp(gammaln(l - am + 1) - gammaln(l + am + 1)))
    y = N * lpmv(am, l, np.cos(theta)) * np.exp(1j * am * phi)  # lpmv has the Condon-Shortley phase
    return (-1) ** am * np.conj(y) if m < 0 else y


bad = False
L = 3
sht = SHT(L)
rng = np.random.default_rng(0)
c = rng.normal(size=sht.nlm()) + 1j * rng.normal(size=sht.nlm())
values = sht.synthesis(c)
c_real = sht.analysis(values.real.copy())  # a legitimate real-transform coefficient vector
c_full = sht.complete_coefficients(c_real)

for theta, phi in [(0.5, 0.3), (0.0, 0.3), (1.2, 0.3), (np.pi, 0.3), (2.0, 1.0), (1e-9, 1.0)]:
    exact = sum(c[l * (l + 1) + m] * Y(l, m, theta, phi) for l in range(L + 1) for m in range(-l, l + 1))
    exact_r = sum(c_full[l * (l + 1) + m] * Y(l, m, theta, phi) for l in range(L + 1) for m in range(-l, l + 1)).real
    got = sht.evaluate_at_points(c, theta, phi)
    got_r = sht.evaluate_at_points(c_real, theta, phi)
    e1, e2 = abs(got - exact), abs(got_r - exact_r)
    flag = "" if max(e1, e2) < 1e-10 else "   <-- WRONG"
    print(f"theta={theta:<18} cplx: got {got:.6f} exact {exact:.6f} | real: got {got_r:.6f} exact {exact_r:.6f}{flag}")
    if flag:
        bad = True

# the compiled kernel versus the pure-Python reference AssocLegendre at x = +-1
for x in (1.0, -1.0):
    buf = np.full((L + 1) * (L + 2) // 2, -99.0)
    CompiledPlm(L).evaluate_batch(x, result=buf)
    ref = PythonPlm(L).evaluate_batch(x)
    if not np.allclose(buf, ref, atol=1e-12):
        print(f"compiled AssocLegendre.evaluate_batch({x}) left the buffer untouched: {buf[:4]} ..., reference {ref[:4]} ...")
        bad = True

if bad:
    print("VIOLATION: evaluate_at_points / compiled Legendre kernel give stale or garbage values at theta = 0, pi")
    sys.exit(1)
print("ok")
sys.exit(0)
