"""C07: evaluate_at_points does not accept the array arguments it documents.

Docstring: theta (np.ndarray), phi (np.ndarray) -> "np.ndarray the evaluated function values".
Point-wise evaluation on a set of points (e.g. the SHT grid itself, to compare with synthesis)
raises instead of agreeing with the grid synthesis; only python/0-d scalars work.
"""
import sys
import numpy as np
from chmpy.shape import SHT

L = 4
sht = SHT(L)
rng = np.random.default_rng(3)
c = rng.normal(size=sht.nlm()) + 1j * rng.normal(size=sht.nlm())
cr = sht.analysis(rng.normal(size=sht.grid[0].shape))
theta, phi = sht.grid
bad = False
for name, coeffs in (("complex", c), ("real", cr)):
    grid_vals = sht.synthesis(coeffs)
    # scalar loop works and agrees with synthesis
    loop = np.array([[sht.evaluate_at_points(coeffs, theta[i, j], phi[i, j]) for j in range(sht.nphi)] for i in range(sht.ntheta)])
    print(name, "scalar loop vs synthesis:", abs(loop - grid_vals).max())
    for label, (t, p) in {"grid arrays": (theta, phi), "1-d arrays": (theta[:, 0], phi[:, 0]),
                          "scalar theta, array phi": (theta[0, 0], phi[0, :])}.items():
        try:
            got = sht.evaluate_at_points(coeffs, t, p)
            expected = grid_vals if label == "grid arrays" else (grid_vals[:, 0] if label == "1-d arrays" else grid_vals[0, :])
            err = abs(np.asarray(got) - expected).max()
            print(f"  {name} {label}: max err {err:.2e}")
            bad |= err > 1e-10
        except Exception as e:
            print(f"  {name} {label}: raised {type(e).__name__}: {e}")
            bad = True
# silent wrong answer: scalar theta with a phi array whose length happens to equal lmax (real
# transform) or 2*lmax+1 (complex transform) broadcasts against the internal exp(i m phi) table
for name, coeffs, n in (("real", cr, L), ("complex", c, 2 * L + 1)):
    ph = np.linspace(0.1, 3.0, n)
    expected = np.array([sht.evaluate_at_points(coeffs, 0.8, p) for p in ph])
    got = sht.evaluate_at_points(coeffs, 0.8, ph)
    print(f"  {name} scalar theta, phi array of length {n}: returned {got!r}, expected array {np.round(expected, 4)}")
    if np.shape(got) != expected.shape or abs(got - expected).max() > 1e-10:
        print("    -> silently returned a single meaningless number (mixes phi[m-1] into the m-th azimuthal term)")
        bad = True

if bad:
    print("VIOLATION: documented array-valued point-wise evaluation fails")
    sys.exit(1)
print("ok")
sys.exit(0)
