"""C07: compiled synthesis path rejects real-dtype coefficient vectors that the pure-Python
reference path handles.

A coefficient vector whose entries happen to be real (zonal functions, cosine-only
expansions, np.zeros(n) with a few entries set, ...) is a legitimate coefficient vector.
synthesis_pure_python / synthesis_pure_python_cplx synthesise it correctly; SHT.synthesis
(and complete_coefficients) pass it to Cython kernels typed `const double complex[:]`
and fail with "Buffer dtype mismatch".
"""
import sys
import numpy as np
from chmpy.shape import SHT

L = 4
sht = SHT(L)
theta, phi = sht.grid
bad = False

# real transform: f = Y_20, coefficient vector [0, 0, 1, 0, ...] (m = 0 block first)
c = np.zeros(sht.nplm())
c[2] = 1.0
exact = np.sqrt(5 / (16 * np.pi)) * (3 * np.cos(theta) ** 2 - 1)
ref = sht.synthesis_pure_python(c)
print("pure-Python real synthesis error vs exact Y_20:", abs(ref - exact).max())
try:
    got = sht.synthesis(c)
    print("compiled real synthesis error:", abs(got - exact).max())
    bad |= abs(got - exact).max() > 1e-12
except Exception as e:
    print("compiled SHT.synthesis(float64 coeffs) raised:", type(e).__name__, e)
    bad = True

# complex transform, real-valued coefficient vector
cc = np.zeros(sht.nlm())
cc[2 * 3 + 0] = 1.0
ref = sht.synthesis_pure_python_cplx(cc)
print("pure-Python cplx synthesis error vs exact Y_20:", abs(ref - exact).max())
try:
    got = sht.synthesis(cc)
    bad |= abs(got - exact).max() > 1e-12
except Exception as e:
    print("compiled SHT.synthesis(float64 full coeffs) raised:", type(e).__name__, e)
    bad = True

try:
    full = sht.complete_coefficients(c)
    bad |= abs(full - cc).max() > 1e-12
except Exception as e:
    print("complete_coefficients(float64 coeffs) raised:", type(e).__name__, e)
    bad = True

# point-wise evaluation accepts the same vector
print("evaluate_at_points(float64 coeffs) =", sht.evaluate_at_points(c, 0.3, 0.1),
      " exact", np.sqrt(5 / (16 * np.pi)) * (3 * np.cos(0.3) ** 2 - 1))

if bad:
    print("VIOLATION: compiled synthesis disagrees with (fails where) the pure-Python reference path (succeeds)")
    sys.exit(1)
print("ok")
sys.exit(0)
