"""C07: for L = 0 the complex transform is not invertible through synthesis / evaluate_at_points.

SHT.synthesis and SHT.evaluate_at_points decide "real transform" by
`coeffs.size == self.nplm()`.  For lmax = 0, nplm() == nlm() == 1, so the single complex
coefficient returned by analysis() of complex-valued samples is treated as a real-transform
vector and its imaginary part is dropped.
"""
import sys
import numpy as np
from chmpy.shape import SHT

sht = SHT(0)
theta, phi = sht.grid
Y00 = 1.0 / np.sqrt(4 * np.pi)
c = np.array([0.7 - 1.3j])
f = c[0] * Y00 * np.ones(theta.shape, dtype=np.complex128)  # band-limited complex function of degree 0

bad = False
ca = sht.analysis(f)
print("analysis(f)            =", ca, "(exact", c, ")")
if abs(ca - c).max() > 1e-12:
    bad = True
back = sht.synthesis(ca)
print("synthesis(analysis(f)) =", back[0, 0], " exact f =", f[0, 0], " dtype", back.dtype)
if abs(back - f).max() > 1e-12:
    print("  -> synthesis lost the imaginary part (grid round trip broken)")
    bad = True
ref = sht.synthesis_pure_python_cplx(c)
print("pure-Python cplx synthesis =", ref[0, 0])
if abs(back - ref).max() > 1e-12:
    print("  -> compiled-path synthesis() disagrees with synthesis_pure_python_cplx()")
    bad = True
c2 = sht.analysis(sht.synthesis(c))
print("analysis(synthesis(c)) =", c2, " expected", c)
if c2.shape != c.shape or abs(c2 - c).max() > 1e-12:
    bad = True
p = sht.evaluate_at_points(c, 0.4, 1.0)
print("evaluate_at_points(c, 0.4, 1.0) =", p, " exact", c[0] * Y00)
if abs(p - c[0] * Y00) > 1e-12:
    bad = True

if bad:
    print("VIOLATION: L=0 complex coefficient vector is mistaken for a real-transform vector")
    sys.exit(1)
print("ok")
sys.exit(0)
