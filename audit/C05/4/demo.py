"""C05 violation 4: rigid motions written as (R @ X.T).T cannot be evaluated.

PromoleculeDensity.__init__, PromoleculeDensity.rho and StockholderWeight.weights
convert their input with np.asarray(..., dtype=np.float32) / .astype(np.float32),
both of which keep the memory layout (order='K').  A perfectly valid (N, 3) array
that happens to be Fortran-ordered or strided - e.g. the result of rotating
coordinates with (R @ X.T).T, or a column-reversed view - is then handed to a Cython
`float[:, ::1]` argument and raises "ValueError: ndarray is not C-contiguous".
So the rigid-motion invariance cannot even be evaluated for such inputs, while the
numerically identical C-ordered array X @ R.T works.
"""
import sys
import numpy as np
from chmpy import PromoleculeDensity, StockholderWeight

els = np.array([8, 1, 1])
pos = np.array([[0, 0, 0], [0.76, 0.59, 0], [-0.76, 0.59, 0]], dtype=float)
pts = np.random.default_rng(0).uniform(-3, 3, (50, 3))
c, s = np.cos(0.3), np.sin(0.3)
R = np.array([[c, -s, 0], [s, c, 0], [0, 0, 1.0]])
t = np.array([1.0, -2.0, 0.5])

P = PromoleculeDensity((els, pos))
base = P.rho(pts)

failures = []
def attempt(label, f):
    try:
        val = f()
        ok = val.shape == base.shape and np.allclose(val, base, rtol=1e-4)
        print(f"{label}: ok ({'matches' if ok else 'DIFFERS'})")
        if not ok:
            failures.append(label)
    except Exception as e:  # noqa
        print(f"{label}: raises {type(e).__name__}: {e}")
        failures.append(label)

pos_rot_C = pos @ R.T + t            # C-ordered
pts_rot_C = pts @ R.T + t
pos_rot_F = (R @ pos.T).T + t        # same numbers, Fortran-ordered
pts_rot_F = (R @ pts.T).T + t
assert np.allclose(pos_rot_C, pos_rot_F) and np.allclose(pts_rot_C, pts_rot_F)

attempt("control: C-ordered rotated atoms + points", lambda: PromoleculeDensity((els, pos_rot_C)).rho(pts_rot_C))
attempt("rho(): rotated points as (R @ pts.T).T   ", lambda: PromoleculeDensity((els, pos_rot_C)).rho(pts_rot_F))
attempt("ctor : rotated atoms as (R @ pos.T).T    ", lambda: PromoleculeDensity((els, pos_rot_F)).rho(pts_rot_C))
attempt("rho(): float32 strided view of same points", lambda: P.rho(np.ascontiguousarray(pts[:, ::-1], dtype=np.float32)[:, ::-1]))
S = StockholderWeight(PromoleculeDensity((els[:1], pos_rot_C[:1])), PromoleculeDensity((els[1:], pos_rot_C[1:])))
attempt("weights(): rotated points as (R @ pts.T).T", lambda: S.weights(pts_rot_F))

if failures:
    print("VIOLATION: legitimate (N,3) coordinate arrays are rejected depending on their memory layout:", failures)
    sys.exit(1)
print("ok")
sys.exit(0)
