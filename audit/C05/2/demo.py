"""C05 violation 2: integer overflow of the table index for very distant points.

`j = <int>(inv_dx * (x - lbound))` overflows a C int once r^2/dx >= 2^31
(r > ~14480 bohr = ~7663 Angstrom).  On x86 the conversion yields INT_MIN, the
`j <= 0` branch is taken and the *nuclear* table value rho[0] is returned: an atom
thousands of Angstrom away contributes its maximum density instead of (essentially) none.
"""
import sys
import numpy as np
from os.path import join, dirname
import chmpy
from chmpy import PromoleculeDensity, StockholderWeight

data = np.load(join(dirname(chmpy.__file__), "interpolate", "thakkar_interp.npz"))
DOM = data["domain"].astype(np.float64)
RHO = data["rho"].astype(np.float64)
BOHR = 0.5291772108

els = np.array([8, 1, 1])
pos = np.array([[0, 0, 0], [0.76, 0.59, 0], [-0.76, 0.59, 0]], dtype=float)
P = PromoleculeDensity((els, pos))

def reference(els, pos, pts):
    out = np.zeros(len(pts))
    for z, p in zip(els, pos):
        r2 = ((pts - p) ** 2).sum(axis=1) / BOHR ** 2
        out += np.interp(r2, DOM, RHO[z - 1])
    return out

bad = False
for R in [100.0, 1000.0, 7000.0, 8000.0, 1.0e4, 1.0e5]:
    pts = np.array([[R, 0.0, 0.0]])
    got = float(P.rho(pts)[0]); exp = float(reference(els, pos, pts)[0])
    flag = abs(got - exp) > 1e-6
    bad |= flag
    print(f"distance {R:9.1f} A: library rho = {got:.6g}   table (clamped tail) = {exp:.6g} {'<-- WRONG' if flag else ''}")

# effect on the stockholder weight: far from both fragments the share becomes the ratio of nuclear densities
S = StockholderWeight.from_arrays(els[1:], pos[1:], els[:1], pos[:1])
w_near = S.weights(np.array([[7000.0, 0, 0]]))[0]
w_far = S.weights(np.array([[8000.0, 0, 0]]))[0]
print(f"H2 share of water at 7000 A: {w_near:.4f}; at 8000 A: {w_far:.4f}")

if bad:
    print("VIOLATION: density at > ~7663 A from an atom equals the atom's nuclear table value (int overflow of the table index)")
    sys.exit(1)
print("ok")
sys.exit(0)
