"""C05 violation 5: a PromoleculeDensity built from a float32 array aliases the caller's array.

np.asarray(pos, dtype=np.float32) copies float64/int/list input but returns the
*same* object for a C-contiguous float32 array, and the Cython object keeps a
memoryview on it.  Re-using/modifying the caller's coordinate buffer afterwards (e.g.
to build the translated copy needed to test rigid-motion invariance, or the next frame
of a trajectory) silently changes the density of the already constructed object:
it is no longer the sum of spherical atoms at the positions it was constructed with.
The behaviour depends only on the dtype of the input.
"""
import sys
import numpy as np
from chmpy import PromoleculeDensity, StockholderWeight

els = np.array([8, 1, 1])
pos0 = np.array([[0, 0, 0], [0.76, 0.59, 0], [-0.76, 0.59, 0]], dtype=float)
pts = np.random.default_rng(0).uniform(-3, 3, (20, 3)).astype(np.float32)
shift = np.array([5.0, 0.0, 0.0])

results = {}
for dtype in (np.float64, np.float32):
    pos = pos0.astype(dtype)
    A = PromoleculeDensity((els, pos))
    before = A.rho(pts).copy()
    pos += shift.astype(dtype)                 # caller re-uses its own buffer
    B = PromoleculeDensity((els, pos))         # translated molecule
    after = A.rho(pts)
    same = np.allclose(before, after, rtol=1e-6)
    results[dtype.__name__] = same
    print(f"{dtype.__name__} input: density of object A unchanged after caller modified its array? {same}"
          f"   (A.rho[0] before={before[0]:.6g} after={after[0]:.6g}, B.rho[0]={B.rho(pts)[0]:.6g})")

# read-only float32 input is rejected outright (non-const memoryview), float64 read-only is fine
ro = pos0.astype(np.float32); ro.flags.writeable = False
try:
    PromoleculeDensity((els, ro)); print("read-only float32 positions: accepted")
except Exception as e:
    print("read-only float32 positions:", type(e).__name__, e)

if not all(results.values()):
    print("VIOLATION: density object shares memory with the caller's float32 array; its density changed without any call on it")
    sys.exit(1)
print("ok")
sys.exit(0)
