"""C05 violation 3: the single-point stockholder weight is 0/0 beyond the table range.

The single-point evaluators used by sphere_stockholder_radii (and hence by
stockholder_weight_descriptor and all *shape_descriptors wrappers) fill the density
with 0.0 beyond r = 20 bohr (interp_f_one: ufill = 0.0) whereas the batch evaluator
clamps to the last table value (interp_f: ufill = yi[ni-1]).  With the default
background = 0.0, StockholderWeight.one_weight then evaluates 0/0; the function is
`noexcept` and not compiled with cdivision, so a ZeroDivisionError is raised,
swallowed ("Exception ignored in ... one_weight") and 0.0 is returned.  The same
point has weight ~1 according to StockholderWeight.weights().  The root finder sees a
fake sign change and reports a closed "Hirshfeld surface" of radius exactly 20 bohr
(10.5835 A) on which the weight is nowhere equal to the isovalue.
"""
import sys
import numpy as np
from chmpy import StockholderWeight
from chmpy.interpolate._density import sphere_stockholder_radii

swallowed = []
sys.unraisablehook = lambda u: swallowed.append(type(u.exc_value).__name__)

# interior: Cl at the origin; exterior: one H atom 2 A away (Cl dominates everywhere)
S = StockholderWeight.from_arrays([17], [[0.0, 0.0, 0.0]], [1], [[2.0, 0.0, 0.0]])
o = np.zeros(3, dtype=np.float32)
g = np.array([[-1, 0, 0], [0, 1, 0], [0, 0, 1], [0.6, 0.8, 0]], dtype=np.float32)

# (a) direct probe of one_weight: with l == u == R and isovalue 0 the solver returns R
#     iff one_weight(R * direction) == 0.0 exactly, and -1 otherwise.
bad = False
for R in [5.0, 10.0, 11.0, 15.0]:
    probe = sphere_stockholder_radii(S.s, o, g[:1], R, R, 1e-7, 30, 0.0)[0]
    batch = float(S.weights(np.array([[-R, 0, 0]], dtype=np.float32))[0])
    single_is_zero = probe > 0
    print(f"point at {R:5.1f} A: weights() = {batch:.6f}; single-point weight == 0.0 ? {single_is_zero}")
    if single_is_zero and batch > 0.1:
        bad = True

# (b) consequence with the default bounds (0.1, 20.0) of stockholder_weight_descriptor
r = sphere_stockholder_radii(S.s, o, g, 0.1, 20.0, 1e-7, 30, 0.5)
pts = (g * r[:, None]).astype(np.float32)
w = S.weights(pts)
print("radii returned for isovalue 0.5:", r, "(20 bohr = 10.5835 A)")
print("weights() on those points      :", w)
print("swallowed exceptions           :", len(swallowed), set(swallowed))
if np.any((r > 0) & (np.abs(w - 0.5) > 1e-2)):
    bad = True

if bad:
    print("VIOLATION: single-point stockholder weight is 0 (swallowed 0/0) where interior/(interior+exterior) is ~1; "
          "a fake isosurface at the table cut-off is returned instead of 'not found' (-1)")
    sys.exit(1)
print("ok")
sys.exit(0)
