"""C05 violation 1: the first table interval is not interpolated.

For 0.04 <= r^2 < 0.1377 bohr^2 (r between 0.2 and 0.371 bohr, i.e. 0.106-0.196 A
from a nucleus) the library returns the first table value rho[0] instead of the
linear interpolant between rho[0] and rho[1] (`if j <= 0` instead of `j < 0`).
The density is therefore a step function there, with a jump of up to ~85 % at
r = 0.371 bohr (C: 12.2 -> 1.84 e/bohr^3).
"""
import sys
import numpy as np
from os.path import join, dirname
import chmpy
from chmpy import PromoleculeDensity

data = np.load(join(dirname(chmpy.__file__), "interpolate", "thakkar_interp.npz"))
DOM = data["domain"].astype(np.float64)   # uniform grid in r^2 (bohr^2)
RHO = data["rho"].astype(np.float64)      # (103, 4096)
BOHR = 0.5291772108

def reference(els, pos, pts):
    out = np.zeros(len(pts))
    for z, p in zip(els, pos):
        r2 = ((pts - p) ** 2).sum(axis=1) / BOHR ** 2
        out += np.interp(r2, DOM, RHO[z - 1])   # clamps outside, interpolates inside
    return out

bad = False
for z, name in [(1, "H"), (6, "C"), (8, "O"), (17, "Cl")]:
    els = np.array([z]); pos = np.zeros((1, 3))
    P = PromoleculeDensity((els, pos))
    # distances strictly inside the first interval [sqrt(DOM[0]), sqrt(DOM[1])) bohr
    r_bohr = np.sqrt(np.linspace(DOM[0], DOM[1], 12)[1:-1])
    pts = np.c_[r_bohr * BOHR, 0 * r_bohr, 0 * r_bohr]
    got = P.rho(pts).astype(np.float64)
    exp = reference(els, pos, pts)
    rel = np.abs(got / exp - 1)
    print(f"{name}: r(bohr)={r_bohr[-1]:.4f} library={got[-1]:.5f} interpolated table={exp[-1]:.5f} "
          f"(table nodes rho[0]={RHO[z-1,0]:.5f}, rho[1]={RHO[z-1,1]:.5f}); max rel. error in first interval {rel.max():.3f}")
    if rel.max() > 1e-3:
        bad = True
    # control: second interval is interpolated correctly
    r2 = np.sqrt(np.linspace(DOM[1], DOM[2], 12)[1:-1])
    pts2 = np.c_[r2 * BOHR, 0 * r2, 0 * r2]
    assert np.abs(P.rho(pts2) / reference(els, pos, pts2) - 1).max() < 1e-4

if bad:
    print("VIOLATION: density in the first table interval is the constant rho[0], not the interpolated tabulated density")
    sys.exit(1)
print("ok")
sys.exit(0)
