"""C05 violation 6 (low severity): StockholderWeight.from_arrays(..., unit=...) is ignored.

from_arrays has an explicit `unit="angstrom"` parameter, but its value is never used:
coordinates declared to be in bohr are interpreted as Angstrom, so every interatomic /
atom-point distance entering the table lookup is wrong by the factor 1.8897 and the
weights differ from interior/(interior+exterior) of the declared geometry.
"""
import sys
import numpy as np
from os.path import join, dirname
import chmpy
from chmpy import StockholderWeight

data = np.load(join(dirname(chmpy.__file__), "interpolate", "thakkar_interp.npz"))
DOM = data["domain"].astype(np.float64); RHO = data["rho"].astype(np.float64)
BOHR = 0.5291772108

def rho_ref(els, pos_bohr, pts_bohr):
    out = np.zeros(len(pts_bohr))
    for z, p in zip(els, pos_bohr):
        out += np.interp(((pts_bohr - p) ** 2).sum(axis=1), DOM, RHO[z - 1])
    return out

n1 = np.array([8]); n2 = np.array([1, 1])
p1_A = np.array([[0.0, 0, 0]]); p2_A = np.array([[0.76, 0.59, 0], [-0.76, 0.59, 0]])
pts_A = np.random.default_rng(0).uniform(-2, 2, (200, 3))
pts_A = pts_A[np.min(np.linalg.norm(pts_A[:, None] - np.r_[p1_A, p2_A][None], axis=2), axis=1) > 0.3]
p1_b, p2_b, pts_b = p1_A / BOHR, p2_A / BOHR, pts_A / BOHR     # the same geometry expressed in bohr

w_ang = StockholderWeight.from_arrays(n1, p1_A, n2, p2_A, unit="angstrom").weights(pts_A)
# same physical system, everything given in bohr and declared as such
w_bohr = StockholderWeight.from_arrays(n1, p1_b, n2, p2_b, unit="bohr").weights(pts_b)
a = rho_ref(n1, p1_b, pts_b); b = rho_ref(n2, p2_b, pts_b)
w_exp = a / (a + b)
print("max |w(angstrom input) - reference| =", np.abs(w_ang - w_exp).max())
print("max |w(bohr input, unit='bohr') - reference| =", np.abs(w_bohr - w_exp).max())
if np.abs(w_bohr - w_exp).max() > 1e-3:
    print("VIOLATION: unit='bohr' is silently ignored; weights are those of a geometry inflated by 1.8897")
    sys.exit(1)
print("ok")
sys.exit(0)
