"""C01: images that coincide on a special position are NOT merged when they
fall on opposite sides of a unit-cell face (0 vs 0.9999..), because the merge
in Crystal.unit_cell_atoms uses a non-periodic KD-tree on coordinates wrapped to [0,1)."""
import sys
import numpy as np
from chmpy.crystal import Crystal, UnitCell, SpaceGroup, AsymmetricUnit
from chmpy.core.element import Element

bad = False

def periodic_orbit_size(sg, p, direct, tol=0.05):
    """independent: distinct images modulo lattice translations (Cartesian tol in Angstrom)"""
    imgs = []
    for s in sg.symmetry_operations:
        q = np.asarray(s.rotation) @ p + np.asarray(s.translation)
        for r in imgs:
            d = q - r
            d -= np.round(d)
            if np.linalg.norm(d @ direct) < tol:
                break
        else:
            imgs.append(q)
    return len(imgs)

# (a) alpha-quartz, P3_121 (No. 152): Si on Wyckoff 3a (x,0,1/3), z written as 0.3333 as in any CIF
uc = UnitCell.from_lengths_and_angles([4.9134, 4.9134, 5.4052], [90, 90, 120], unit="degrees")
sg = SpaceGroup(152)
si = np.array([0.4699, 0.0, 0.3333])
ox = np.array([0.4141, 0.2681, 0.2145])
c = Crystal(uc, sg, AsymmetricUnit([Element["Si"], Element["O"]], np.array([si, ox])))
d = c.unit_cell_atoms()
n_si = int(np.sum(d["element"] == 14))
exp_si = periodic_orbit_size(sg, si, uc.direct)
print("quartz P3_121: Si sites in unit cell: library %d, expected %d" % (n_si, exp_si))
print("  Si frac_pos:\n", d["frac_pos"][d["element"] == 14], "\n  occupation", d["occupation"][d["element"] == 14])
if n_si != exp_si:
    bad = True

# (b) R-3c hexagonal axes (No. 167): atom on the 3-fold axis at (1/3,2/3,z) written 0.3333 0.6667
uc = UnitCell.from_lengths_and_angles([5.0, 5.0, 17.0], [90, 90, 120], unit="degrees")
sg = SpaceGroup(167, choice="H")
p = np.array([0.3333, 0.6667, 0.1])
c = Crystal(uc, sg, AsymmetricUnit([Element["C"]], np.array([p])))
d = c.unit_cell_atoms()
exp = periodic_orbit_size(sg, p, uc.direct)
print("R-3c(H) site (0.3333,0.6667,0.1): library %d sites, expected %d" % (len(d["element"]), exp))
if len(d["element"]) != exp:
    bad = True

# (c) same thing at double precision accuracy is fine, showing it is the boundary, not the rounding:
# the identical special position shifted away from the cell face (P3_221, z=2/3 -> images at z=1/3,0) vs
# P-1 style check: a site 1e-5 from an inversion centre at the origin vs. at (1/2,1/2,1/2)
uc = UnitCell.from_lengths_and_angles([5, 6, 7], [90, 90, 90], unit="degrees")
for centre in (0.5, 0.0):
    c = Crystal(uc, SpaceGroup(2), AsymmetricUnit([Element["C"]], np.array([[centre + 1e-5] * 3])))
    n = len(c.unit_cell_atoms()["element"])
    print("P-1, site 1e-5 from inversion centre at %.1f: %d site(s)" % (centre, n))

sys.exit(1 if bad else 0)
