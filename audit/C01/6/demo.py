"""C01: a crystal read from a CIF whose _atom_site_occupancy column contains the CIF
'unknown' ('?') or 'inapplicable' ('.') value cannot generate its unit cell at all:
the occupancy array is kept as strings and unit_cell_atoms raises."""
import sys
import numpy as np
from chmpy.crystal import Crystal

cif = """data_t
_cell_length_a 5.0
_cell_length_b 6.0
_cell_length_c 7.0
_cell_angle_alpha 90
_cell_angle_beta 100
_cell_angle_gamma 90
_symmetry_Int_Tables_number 14
loop_
_symmetry_equiv_pos_as_xyz
x,y,z
-x,y+1/2,-z+1/2
-x,-y,-z
x,-y+1/2,z+1/2
loop_
_atom_site_label
_atom_site_type_symbol
_atom_site_fract_x
_atom_site_fract_y
_atom_site_fract_z
_atom_site_occupancy
C1 C 0.1 0.2 0.3 1.0
O1 O 0.3 0.1 0.4 %s
"""
bad = False
for tok in ("?", "."):
    c = Crystal.from_cif_string(cif % tok)
    print("occupancy token %r -> stored occupation %r" % (tok, c.asymmetric_unit.properties["occupation"]))
    try:
        d = c.unit_cell_atoms()
        n = len(d["element"])
        print("   unit cell atoms:", n, "occupation", d["occupation"])
        if n != 8 or d["occupation"].dtype.kind not in "fi":
            bad = True
    except Exception as e:
        print("   unit_cell_atoms raised %s: %s" % (type(e).__name__, str(e)[:100]))
        bad = True
sys.exit(1 if bad else 0)
