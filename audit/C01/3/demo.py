"""C01: two different asymmetric-unit sites that share a position (substitutional
disorder / mixed occupancy, e.g. Fe0.5Ni0.5 on one Wyckoff position) are merged into a
single unit-cell site; the second site's element, label and parent index vanish."""
import sys
import numpy as np
from chmpy.crystal import Crystal

cif = """data_FeNi
_cell_length_a 3.58
_cell_length_b 3.58
_cell_length_c 3.58
_cell_angle_alpha 90
_cell_angle_beta 90
_cell_angle_gamma 90
_symmetry_Int_Tables_number 221
loop_
_symmetry_equiv_pos_as_xyz
x,y,z
-x,-y,z
-x,y,-z
x,-y,-z
z,x,y
z,-x,-y
-z,-x,y
-z,x,-y
y,z,x
-y,z,-x
y,-z,-x
-y,-z,x
y,x,-z
-y,-x,-z
y,-x,z
-y,x,z
x,z,-y
-x,z,y
-x,-z,-y
x,-z,y
z,y,-x
z,-y,x
-z,y,x
-z,-y,-x
-x,-y,-z
x,y,-z
x,-y,z
-x,y,z
-z,-x,-y
-z,x,y
z,x,-y
z,-x,y
-y,-z,-x
y,-z,x
-y,z,x
y,z,-x
-y,-x,z
y,x,z
-y,x,-z
y,-x,-z
-x,-z,y
x,-z,-y
x,z,y
-x,z,-y
-z,-y,x
-z,y,-x
z,-y,-x
z,y,x
loop_
_atom_site_label
_atom_site_type_symbol
_atom_site_fract_x
_atom_site_fract_y
_atom_site_fract_z
_atom_site_occupancy
Fe1 Fe 0.0 0.0 0.0 0.5
Ni1 Ni 0.0 0.0 0.0 0.5
Cl1 Cl 0.5 0.5 0.5 1.0
"""
c = Crystal.from_cif_string(cif)
print("space group", c.space_group, "n symops", len(c.space_group.symmetry_operations))
d = c.unit_cell_atoms()
print("asym_atom ", d["asym_atom"])
print("element   ", d["element"])
print("label     ", d["label"])
print("occupation", d["occupation"])
nsym = len(c.space_group.symmetry_operations)
bad = False
# independent expectation: Pm-3m, site symmetry m-3m (order 48) at the origin and at the body centre:
# one image per asymmetric-unit site -> 3 unit cell sites: Fe (48*0.5), Ni (48*0.5), Cl (48*1.0)
expected = {("Fe1", 26, 0): nsym * 0.5, ("Ni1", 28, 1): nsym * 0.5, ("Cl1", 17, 2): nsym * 1.0}
got = {(str(l), int(e), int(a)): float(o) for l, e, a, o in zip(d["label"], d["element"], d["asym_atom"], d["occupation"])}
print("expected sites (label, Z, asym index) -> occupation:", expected)
print("library sites                                      :", got)
if got != expected:
    bad = True
    for k in expected:
        if k not in got:
            print("MISSING unit-cell site for asymmetric-unit site", k)
sys.exit(1 if bad else 0)
