"""C01: distinct atoms are merged (and one of them dropped) because the merge
tolerance in Crystal.unit_cell_atoms (default 1e-2) is a distance in *fractional*
coordinates: in a large cell it corresponds to Angstroms of real distance."""
import sys
import numpy as np
from chmpy.crystal import Crystal, UnitCell, SpaceGroup, AsymmetricUnit
from chmpy.core.element import Element
from chmpy.core.molecule import Molecule

bad = False

# (a) the library's own constructor Crystal.from_molecule puts the molecule in a 1000 A cubic P1 cell
pos = np.array([[0.0, 0.0, 0.0], [0.9572, 0.0, 0.0], [-0.2400, 0.9266, 0.0]])
water = Molecule.from_arrays([8, 1, 1], pos)
c = Crystal.from_molecule(water)
d = c.unit_cell_atoms()
print("water via Crystal.from_molecule: %d asymmetric-unit sites, P1 -> expected 3 unit cell atoms, library gives %d"
      % (len(c.asymmetric_unit), len(d["element"])))
print("   element", d["element"], "label", d["label"], "occupation", d["occupation"])
if len(d["element"]) != 3:
    bad = True

# (b) an ordinary large cell (a = 120 A cubic, e.g. a protein / MOF): O-H 0.96 A apart, both fully occupied
uc = UnitCell.cubic(120.0)
frac = np.array([[0.5, 0.5, 0.5], [0.5 + 0.96 / 120.0, 0.5, 0.5]])
c = Crystal(uc, SpaceGroup(1), AsymmetricUnit([Element["O"], Element["H"]], frac))
d = c.unit_cell_atoms()
sep = np.linalg.norm((frac[1] - frac[0]) @ uc.direct)
print("P1, a=120 A, O and H %.2f A apart: expected 2 unit cell atoms, library gives %d (elements %s, occupation %s)"
      % (sep, len(d["element"]), d["element"], d["occupation"]))
if len(d["element"]) != 2:
    bad = True

# (c) with symmetry: P2_1/c, a=b=c=110 A, C and its bonded H 1.0 A apart are distinct sites with 4 images each
uc = UnitCell.from_lengths_and_angles([110, 110, 110], [90, 100, 90], unit="degrees")
frac = np.array([[0.21, 0.33, 0.41], [0.21 + 1.0 / 110, 0.33, 0.41]])
c = Crystal(uc, SpaceGroup(14), AsymmetricUnit([Element["C"], Element["H"]], frac))
d = c.unit_cell_atoms()
print("P2_1/c, 110 A cell, C-H: expected 8 unit cell atoms (4 C + 4 H), library gives %d, elements %s"
      % (len(d["element"]), d["element"]))
if len(d["element"]) != 8:
    bad = True

sys.exit(1 if bad else 0)
