"""C01: total occupancy is not conserved by the merge in Crystal.unit_cell_atoms
when the 'within tolerance' relation is not transitive (cluster of images around a
4-fold / 6-fold axis, or a chain of close sites): occupancies of already-masked sites
are added to more than one survivor (or to a site that is itself dropped)."""
import sys
import numpy as np
from chmpy.crystal import Crystal, UnitCell, SpaceGroup, AsymmetricUnit
from chmpy.core.element import Element

bad = False

# (a) P4 (No. 75), a=b=30, c=10: disordered quarter-occupied O 0.18 A off the 4-fold axis at (1/2,1/2,z)
uc = UnitCell.from_lengths_and_angles([30, 30, 10], [90, 90, 90], unit="degrees")
sg = SpaceGroup(75)
occ = np.array([0.25])
c = Crystal(uc, sg, AsymmetricUnit([Element["O"]], np.array([[0.506, 0.5, 0.3]]), occupation=occ))
d = c.unit_cell_atoms()
expected_total = len(sg.symmetry_operations) * occ.sum()
print("P4: sites", len(d["element"]), "occupation", d["occupation"], "frac_pos\n", d["frac_pos"])
print("   total occupancy in unit cell: library %.3f, expected (4 images x 0.25) %.3f"
      % (d["occupation"].sum(), expected_total))
if abs(d["occupation"].sum() - expected_total) > 1e-9:
    bad = True

# (b) P1 chain of three sites A-B-C, A-B and B-C within tolerance, A-C not
uc = UnitCell.cubic(10.0)
pos = np.array([[0.500, 0.5, 0.5], [0.508, 0.5, 0.5], [0.516, 0.5, 0.5]])
occ = np.array([0.3, 0.3, 0.3])
c = Crystal(uc, SpaceGroup(1), AsymmetricUnit([Element["O"]] * 3, pos, occupation=occ))
d = c.unit_cell_atoms()
print("P1 chain: sites", len(d["element"]), "occupation", d["occupation"],
      " total library %.3f expected %.3f" % (d["occupation"].sum(), occ.sum()))
if abs(d["occupation"].sum() - occ.sum()) > 1e-9:
    bad = True

sys.exit(1 if bad else 0)
