"""C01: fractional coordinates of unit cell atoms are not in [0,1) when an image
coordinate is below -7 (wrapping is done with np.fmod(x + 7.0, 1), which keeps the sign)."""
import sys
import numpy as np
from chmpy.crystal import Crystal, UnitCell, SpaceGroup, AsymmetricUnit
from chmpy.core.element import Element

uc = UnitCell.from_lengths_and_angles([5, 6, 7], [90, 90, 90], unit="degrees")
bad = False
for sgnum, p in ((2, [7.3, 8.2, 0.1]), (1, [-7.3, 0.2, 0.1]), (14, [0.1, 7.9, 0.2])):
    c = Crystal(uc, SpaceGroup(sgnum), AsymmetricUnit([Element["C"]], np.array([p])))
    d = c.unit_cell_atoms()
    fp = d["frac_pos"]
    ok = bool(np.all(fp >= 0) and np.all(fp < 1))
    print("space group %d, site %s -> frac_pos\n%s\n   all in [0,1): %s" % (sgnum, p, fp, ok))
    # Cartesian coordinates therefore lie outside the reference cell as well
    if not ok:
        bad = True
sys.exit(1 if bad else 0)
