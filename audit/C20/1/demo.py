"""C20 / clause 'batch generators return exactly the points the single-point
generators return for the same seeds' -- Korobov (kgf) generator.

quasirandom_kgf_batch builds its seed vector as np.arange(L, U + 1, dtype=np.int32)
and then evaluates N + 1 in int32.  Both generators declare the seed as a C
`unsigned int`, so seeds up to 2**32 - 1 are accepted, but in the batch version
  * seed 2**31 - 1 silently wraps (N + 1 == -2**31) and yields a different point,
  * seeds >= 2**31 either raise OverflowError or wrap silently (when the range
    starts below 2**31 - 1, e.g. through chmpy.sampling.quasirandom),
  * U == 2**32 - 1 makes the C expression U + 1 wrap to 0 -> empty result.
The single-point generator handles all of these seeds.
"""
import sys
import numpy as np
from chmpy.sampling import quasirandom, quasirandom_kgf, quasirandom_kgf_batch

D = 2
bad = 0


def independent(n, d):
    # R_d sequence: g = root of x**(d+1) = x + 1, a_i = g**-(i+1), p = frac(0.5 + a*(n+1))
    g = 2.0
    for _ in range(60):
        g = (1.0 + g) ** (1.0 / (d + 1))
    a = np.array([(1.0 / g) ** (i + 1) for i in range(d)])
    return (0.5 + a * float(n + 1)) % 1.0


def report(label, batch, single):
    global bad
    same = batch is not None and batch.shape == single.shape and np.array_equal(batch, single)
    print(f"{label}\n  batch : {None if batch is None else batch.tolist()}\n  single: {single.tolist()}\n  -> {'ok' if same else 'MISMATCH'}")
    if not same:
        bad += 1


for lo, hi in [(2**31 - 3, 2**31 - 1), (2**31 - 1, 2**31 - 1), (2**31, 2**31 + 1), (2**32 - 1, 2**32 - 1)]:
    single = np.vstack([quasirandom_kgf(n, D) for n in range(lo, hi + 1)])
    ref = np.vstack([independent(n, D) for n in range(lo, hi + 1)])
    if hi < 2**32 - 1:
        d = np.abs(single - ref); d = np.minimum(d, 1 - d)
        print(f"seeds {lo}..{hi}: single-point generator vs independent formula, max diff {d.max():.2e}")
    try:
        batch = quasirandom_kgf_batch(lo, hi, D)
    except Exception as exc:  # noqa
        print(f"quasirandom_kgf_batch({lo}, {hi}, {D}) raised {type(exc).__name__}: {exc}")
        batch = None
    report(f"kgf seeds {lo}..{hi}", batch, single)

# the documented front end reaches the same code silently
seed = 2**31 - 2
front = quasirandom(3, D, method="kgf", seed=seed)
single = np.vstack([quasirandom_kgf(n, D) for n in range(seed, seed + 3)])
report(f"quasirandom(3, {D}, method='kgf', seed={seed})", front, single)

sys.exit(1 if bad else 0)
