"""C20 / 'for every ... dimension ... results depend only on (seed, dimension)' and
'in every coordinate the first 2**m points occupy each of the 2**m sub-intervals
exactly once' -- Sobol generator with D > 21201.

The direction-number table has 21202 rows (dimensions 1..21201).  Neither
quasirandom_sobol nor quasirandom_sobol_batch checks D against it, and the module
is compiled with boundscheck=False, so for D > 21201 `poly[j+1]` reads past the
end of the table: the extra coordinates are built from whatever bytes follow the
array in memory.  No exception is raised; the extra coordinates are not
stratified (often identically 0) and they change from one process to the next.
A behaving library would either raise (ValueError/IndexError) or return proper
Sobol coordinates.
"""
import hashlib
import subprocess
import sys
import numpy as np

TABLE_DIMS = 21201
bad = 0

CHILD = r"""
import sys, hashlib, numpy as np
k = int(sys.argv[1])
junk = [np.full(50000 + 7919 * k, float(k)) for _ in range(k)]   # perturb the heap a little
from chmpy.sampling import quasirandom_sobol
try:
    p = quasirandom_sobol(1000, 40000)
except (ValueError, IndexError) as exc:
    print("RAISED", type(exc).__name__); sys.exit(0)
print(hashlib.md5(p[:21201].tobytes()).hexdigest(), hashlib.md5(p[21201:].tobytes()).hexdigest())
"""

from chmpy.sampling import quasirandom_sobol_batch

D = TABLE_DIMS + 9
try:
    pts = quasirandom_sobol_batch(1, 1024, D)
except (ValueError, IndexError) as exc:
    print(f"D={D}: library refuses with {type(exc).__name__}: {exc}  (acceptable)")
    sys.exit(0)

cells = np.sort(np.floor(pts * 1024).astype(np.int64), axis=0)
ok = (cells == np.arange(1024)[:, None]).all(axis=0)
print(f"D={D}, seeds 1..1024: coordinates 0..{TABLE_DIMS-1} stratified: {bool(ok[:TABLE_DIMS].all())}")
print(f"  coordinates >= {TABLE_DIMS} that are NOT stratified: {np.where(~ok)[0].tolist()}")
print(f"  distinct values in coordinate {TABLE_DIMS}: {np.unique(pts[:, TABLE_DIMS])[:5].tolist()}")
if not ok.all():
    bad += 1

outs = []
for k in (1, 2, 3):
    r = subprocess.run([sys.executable, "-c", CHILD, str(k)], capture_output=True, text=True)
    if r.returncode != 0:
        print(f"child {k} died with return code {r.returncode} (crash on out-of-bounds read)")
        bad += 1
        continue
    outs.append(r.stdout.strip())
    print(f"process {k}: quasirandom_sobol(1000, 40000)  md5(coords < 21201), md5(coords >= 21201) = {outs[-1]}")
tails = {o.split()[1] for o in outs if len(o.split()) == 2}
if len(tails) > 1:
    print("the coordinates beyond the table differ between processes for the same (seed, dimension)")
    bad += 1

sys.exit(1 if bad else 0)
