"""C20 / 'For the Sobol sequence ...' -- the generator does not produce the
(Joe-Kuo) Sobol sequence in coordinates 13425..21200 once the seed exceeds 2**17.

_sobol.pyx derives the polynomial degree s from the table row with

    for s in range(1, m.shape[0]):
        if m[s] == 0: break
    s = s - 1

The table has 19 columns (a, m_1..m_18).  For the 7776 rows whose polynomial has
the maximal degree 18 there is no zero entry, the loop ends without `break`
with s == 18, and `s = s - 1` yields 17 instead of 18.  As soon as L =
ceil(log2(seed)) >= 18 the code therefore ignores the tabulated m_18 and builds
V[18], V[19], ... from a degree-17 recurrence with misaligned coefficient bits.
Every point with seed > 2**17 is wrong in those coordinates (batch and single
share the bug, so they agree with each other).

The 1-d stratification of each coordinate survives (the wrong direction numbers
are still unit upper triangular), but the points are not those of the Sobol
sequence the function documents, and the Joe-Kuo pairwise quality criteria no
longer apply to these coordinates.
"""
import sys
from pathlib import Path
import numpy as np
import chmpy.sampling as S
from chmpy.sampling import quasirandom_sobol, quasirandom_sobol_batch

P = np.load(Path(S.__file__).parent / "_sobol_parameters.npz")["poly"]


def direction_numbers(j, L):
    """Joe-Kuo direction numbers (scaled by 2**32) of 0-based coordinate j."""
    if j == 0:
        return [0] + [1 << (32 - t) for t in range(1, L + 1)]
    row = [int(x) for x in P[j + 1]]
    a, m = row[0], [x for x in row[1:] if x]
    s = len(m)
    V = [0] * (L + 1)
    for t in range(1, L + 1):
        if t <= s:
            V[t] = m[t - 1] << (32 - t)
        else:
            v = V[t - s] ^ (V[t - s] >> s)
            for k in range(1, s):
                if (a >> (s - 1 - k)) & 1:
                    v ^= V[t - k]
            V[t] = v
    return V


def ref_coord(seed, j):
    i = seed - 1
    g = i ^ (i >> 1)
    L = max(1, i.bit_length())
    V = direction_numbers(j, L)
    x = 0
    for b in range(L):
        if (g >> b) & 1:
            x ^= V[b + 1]
    return x / 2.0**32


deg = (P[:, 1:] != 0).sum(axis=1)
first = int(np.where(deg == P.shape[1] - 1)[0][0])  # first table row of degree 18
j = first - 1                                        # its 0-based coordinate
D = j + 1
print(f"table row {first}: degree {deg[first]}, a={P[first,0]}, m_18={P[first,18]}  -> coordinate index {j} (D={D})")

bad = 0
lo = 2**17
pts = quasirandom_sobol_batch(lo, lo + 2, D)          # seeds 2**17, 2**17+1, 2**17+2
single = quasirandom_sobol(lo + 1, D)
print("single == batch for seed 2**17+1:", np.array_equal(single, pts[1]))

# (a) direction number actually used: V_18 = x(index 2**17) xor x(index 2**17 - 1)
X = np.round(pts[:, j] * 2.0**32).astype(np.uint64)
v18_lib = int(X[0] ^ X[1])
v18_tab = int(P[first, 18]) << (32 - 18)
print(f"effective V[18] of library : {v18_lib:#010x}  (m_18 = {v18_lib >> 14})")
print(f"tabulated  V[18] = m_18<<14: {v18_tab:#010x}  (m_18 = {int(P[first,18])})")
if v18_lib != v18_tab:
    bad += 1

# (b) points themselves against an independent evaluation
for k, seed in enumerate(range(lo, lo + 3)):
    cols = [0, 1, 2, 100, 5000, j - 1, j]
    ref = np.array([ref_coord(seed, c) for c in cols])
    got = pts[k, cols]
    wrong = [c for c, r, g_ in zip(cols, ref, got) if r != g_]
    print(f"seed {seed}: coords {cols}\n   library   {got.tolist()}\n   reference {ref.tolist()}\n   differing coordinates: {wrong}")
    if wrong:
        bad += 1

try:
    from scipy.stats import qmc
    s = qmc.Sobol(D, scramble=False, bits=32)
    s.fast_forward(lo - 1)
    sp = s.random(3)
    ncols = int((sp != pts).any(axis=0).sum())
    print(f"scipy.stats.qmc.Sobol (same Joe-Kuo table): {ncols} of {D} coordinates differ for seeds {lo}..{lo+2};"
          f" coord {j}: scipy {sp[:, j].tolist()}")
except Exception as exc:  # scipy optional
    print("scipy cross-check skipped:", exc)

sys.exit(1 if bad else 0)
