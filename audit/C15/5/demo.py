import sys
from chmpy.fmt.cif import Cif

def same(a, b):
    if type(a) != type(b):
        return False
    if isinstance(a, dict):
        return a.keys() == b.keys() and all(same(a[k], b[k]) for k in a)
    if isinstance(a, list):
        return len(a) == len(b) and all(same(x, y) for x, y in zip(a, b))
    return a == b

def roundtrip(d):
    text = Cif(d).to_string()
    try:
        out = Cif.from_string(text).data
    except Exception as e:
        return text, e
    return text, out

bad = 0
def check(label, d):
    global bad
    text, out = roundtrip(d)
    if isinstance(out, Exception) or not same(d, out):
        bad += 1
        print("VIOLATION:", label)
        print("   written :", d)
        print("   text    :", repr(text))
        print("   parsed  :", repr(out))
    else:
        print("ok:", label)

from chmpy.fmt.cif import Cif
bad = 0
cases = {
 "value with s.u. on the line after the data name": ("data_a\n_cell_length_a\n5.431(2)\n_b 1\n#END", {"a": {"cell_length_a": 5.431, "b": 1}}),
 "plain number on the line after the data name": ("data_a\n_cell_volume\n123.5\n#END", {"a": {"cell_volume": 123.5}}),
 "indented value with s.u. on the next line": ("data_a\n_cell_length_a\n  5.431(2)\n_b 1\n#END", {"a": {"cell_length_a": 5.431, "b": 1}}),
 "indented quoted string on the next line": ("data_a\n_name\n  'P 21/c'\n_b 1\n#END", {"a": {"name": "P 21/c", "b": 1}}),
}
for label, (text, want) in cases.items():
    try:
        got = Cif.from_string(text).data
    except Exception as e:
        got = e
    if isinstance(got, Exception) or not same(got, want):
        bad += 1
        print("VIOLATION:", label, "\n   text    :", repr(text), "\n   parsed  :", repr(got), "\n   expected:", want)
    else:
        print("ok:", label)

sys.exit(1 if bad else 0)
