import sys
from chmpy.fmt.cif import Cif

def same(a, b):
    if type(a) != type(b):
        return False
    if isinstance(a, dict):
        return a.keys() == b.keys() and all(same(a[k], b[k]) for k in a)
    if isinstance(a, list):
        return len(a) == len(b) and all(same(x, y) for x, y in zip(a, b))
    return a == b

def roundtrip(d):
    text = Cif(d).to_string()
    try:
        out = Cif.from_string(text).data
    except Exception as e:
        return text, e
    return text, out

bad = 0
def check(label, d):
    global bad
    text, out = roundtrip(d)
    if isinstance(out, Exception) or not same(d, out):
        bad += 1
        print("VIOLATION:", label)
        print("   written :", d)
        print("   text    :", repr(text))
        print("   parsed  :", repr(out))
    else:
        print("ok:", label)

check("scalar string '123'", {"blk": {"x": "123"}})
check("scalar string '1e5'", {"blk": {"x": "1e5"}})
check("loop of numeric-looking labels", {"blk": {"a_label": ["1", "2", "10"], "a_x": [0.5, 0.25, 0.125]}})
check("string '1.50' (trailing zero significant)", {"blk": {"x": "1.50"}})

sys.exit(1 if bad else 0)
