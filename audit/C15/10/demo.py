import sys
from chmpy.fmt.cif import Cif

def same(a, b):
    if type(a) != type(b):
        return False
    if isinstance(a, dict):
        return a.keys() == b.keys() and all(same(a[k], b[k]) for k in a)
    if isinstance(a, list):
        return len(a) == len(b) and all(same(x, y) for x, y in zip(a, b))
    return a == b

def roundtrip(d):
    text = Cif(d).to_string()
    try:
        out = Cif.from_string(text).data
    except Exception as e:
        return text, e
    return text, out

bad = 0
def check(label, d):
    global bad
    text, out = roundtrip(d)
    if isinstance(out, Exception) or not same(d, out):
        bad += 1
        print("VIOLATION:", label)
        print("   written :", d)
        print("   text    :", repr(text))
        print("   parsed  :", repr(out))
    else:
        print("ok:", label)

check("first loop value starts with '_'", {"blk": {"l_a": ["_x", "y"], "l_b": [1, 2]}})
check("first loop value starts with '#'", {"blk": {"l_a": ["#1", "#2"], "l_b": [1, 2]}})
check("first loop value starts with 'data_'", {"blk": {"l_a": ["data_set1", "y"], "l_b": [1, 2]}})
check("first loop value is 'loop_'", {"blk": {"l_a": ["loop_", "y"], "l_b": [1, 2]}})
# the same strings are fine as scalar items or in a non-first column
check("same strings as scalars (control)", {"blk": {"p": "_x", "q": "data_set1"}})
check("same strings in second column (control)", {"blk": {"l_b": [1, 2], "l_a": ["_x", "data_set1"]}})

sys.exit(1 if bad else 0)
