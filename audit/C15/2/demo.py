import sys
from chmpy.fmt.cif import Cif

def same(a, b):
    if type(a) != type(b):
        return False
    if isinstance(a, dict):
        return a.keys() == b.keys() and all(same(a[k], b[k]) for k in a)
    if isinstance(a, list):
        return len(a) == len(b) and all(same(x, y) for x, y in zip(a, b))
    return a == b

def roundtrip(d):
    text = Cif(d).to_string()
    try:
        out = Cif.from_string(text).data
    except Exception as e:
        return text, e
    return text, out

bad = 0
def check(label, d):
    global bad
    text, out = roundtrip(d)
    if isinstance(out, Exception) or not same(d, out):
        bad += 1
        print("VIOLATION:", label)
        print("   written :", d)
        print("   text    :", repr(text))
        print("   parsed  :", repr(out))
    else:
        print("ok:", label)

import math
def check_close(label, d):
    global bad
    text, out = roundtrip(d)
    col = d["blk"]["v_x"]
    try:
        got = out["blk"]["v_x"]
        ok = len(got) == len(col) and all(isinstance(g, float) and math.isclose(g, c, rel_tol=1e-9, abs_tol=0.0) for g, c in zip(got, col))
    except Exception:
        ok = False
    if not ok:
        bad += 1
        print("VIOLATION:", label, "\n   written:", col, "\n   text   :", repr(text), "\n   parsed :", out)
    else:
        print("ok:", label)
# the same numbers as scalar items round-trip exactly (repr is used there)
check("scalars 1.23456789e-07 / 4.2e-13 (exact)", {"blk": {"a": 1.23456789e-07, "b": 4.2e-13}})
check_close("loop column small floats (rel 1e-9)", {"blk": {"v_x": [1.23456789e-07, 2.5]}})
check_close("loop column 4.2e-13", {"blk": {"v_x": [4.2e-13, 2.5]}})

sys.exit(1 if bad else 0)
