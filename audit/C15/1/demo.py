import sys
from chmpy.fmt.cif import Cif

def same(a, b):
    if type(a) != type(b):
        return False
    if isinstance(a, dict):
        return a.keys() == b.keys() and all(same(a[k], b[k]) for k in a)
    if isinstance(a, list):
        return len(a) == len(b) and all(same(x, y) for x, y in zip(a, b))
    return a == b

def roundtrip(d):
    text = Cif(d).to_string()
    try:
        out = Cif.from_string(text).data
    except Exception as e:
        return text, e
    return text, out

bad = 0
def check(label, d):
    global bad
    text, out = roundtrip(d)
    if isinstance(out, Exception) or not same(d, out):
        bad += 1
        print("VIOLATION:", label)
        print("   written :", d)
        print("   text    :", repr(text))
        print("   parsed  :", repr(out))
    else:
        print("ok:", label)

check("scalar float 2.0", {"blk": {"cell_length_a": 2.0}})
check("scalar float 90.0", {"blk": {"cell_angle_alpha": 90.0}})
check("loop floats incl. 0.0, 1.0", {"blk": {"atom_site_fract_x": [0.0, 0.25, 1.0], "atom_site_fract_y": [0.5, 0.5, 0.5]}})
check("scalar float 1e22", {"blk": {"x": 1e22}})

sys.exit(1 if bad else 0)
