import sys
from chmpy.fmt.cif import Cif

def same(a, b):
    if type(a) != type(b):
        return False
    if isinstance(a, dict):
        return a.keys() == b.keys() and all(same(a[k], b[k]) for k in a)
    if isinstance(a, list):
        return len(a) == len(b) and all(same(x, y) for x, y in zip(a, b))
    return a == b

def roundtrip(d):
    text = Cif(d).to_string()
    try:
        out = Cif.from_string(text).data
    except Exception as e:
        return text, e
    return text, out

bad = 0
def check(label, d):
    global bad
    text, out = roundtrip(d)
    if isinstance(out, Exception) or not same(d, out):
        bad += 1
        print("VIOLATION:", label)
        print("   written :", d)
        print("   text    :", repr(text))
        print("   parsed  :", repr(out))
    else:
        print("ok:", label)

check("scalar int 2**53+1", {"blk": {"n": 2**53 + 1}})
check("loop ints > 2**53", {"blk": {"l_id": [9007199254740993, 12345678901234567891], "l_x": [1, 2]}})

sys.exit(1 if bad else 0)
