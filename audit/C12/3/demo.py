"""C12: UnitCell keeps references to the caller's arrays (vectors, lengths, angles)
instead of copies; re-using the buffer leaves direct/inverse/lengths inconsistent."""
import sys
import numpy as np
from chmpy.crystal import UnitCell

bad = False
# route 1: lattice vectors, buffer reused for a scaled cell
v = np.array([[5.0, 0, 0], [1.0, 6.0, 0], [1.0, 1.0, 7.0]])
uc = UnitCell(v)
v *= 2.0  # caller builds the next cell in the same buffer
uc2 = UnitCell(v)
prod = np.asarray(uc.direct) @ np.asarray(uc.inverse)
print("first cell direct @ inverse =\n", prod)
print("first cell lengths reported", uc.lengths, " actual |rows of direct|", np.linalg.norm(uc.direct, axis=1))
print("first cell volume()", uc.volume(), " det(lattice)", np.linalg.det(uc.direct))
if not np.allclose(prod, np.eye(3), atol=1e-9):
    bad = True
p = np.array([[0.1, 0.2, 0.3]])
rt = uc.to_fractional(uc.to_cartesian(p))
print("frac -> cart -> frac:", p, "->", rt)
if not np.allclose(rt, p, atol=1e-9):
    bad = True

# route 2: lengths and angles
L = np.array([3.0, 4.0, 5.0]); A = np.radians([70.0, 80.0, 100.0])
uc = UnitCell.from_lengths_and_angles(L, A)
L *= 2.0
print("lengths reported", uc.lengths, " actual", np.linalg.norm(uc.direct, axis=1))
print("volume()", uc.volume(), " det(lattice)", np.linalg.det(uc.direct))
if not np.allclose(uc.lengths, np.linalg.norm(uc.direct, axis=1)):
    bad = True
if bad:
    print("VIOLATION: cell state aliases caller-owned arrays and becomes self-inconsistent")
    sys.exit(1)
sys.exit(0)
