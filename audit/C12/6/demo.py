"""C12: UnitCell(vectors) is documented to take an array_like / list of lattice
vectors, but fails for anything that is not already an ndarray."""
import sys
import numpy as np
from chmpy.crystal import UnitCell

vecs = [[3.0, 0.0, 0.0], [1.0, 4.0, 0.0], [1.0, 1.0, 5.0]]
bad = False
for label, arg in (("list of lists", vecs), ("tuple of tuples", tuple(map(tuple, vecs))),
                   ("list of ndarrays", [np.array(v) for v in vecs])):
    try:
        uc = UnitCell(arg)
        ok = np.allclose(uc.to_fractional(uc.to_cartesian(np.eye(3))), np.eye(3))
        print(label, "->", "ok" if ok else "inconsistent")
        bad |= not ok
    except Exception as e:
        print(label, "-> raises", type(e).__name__ + ":", e)
        bad = True
try:
    uc = UnitCell.cubic(2.0)
    uc.set_vectors(vecs)
except Exception as e:
    print("set_vectors(list) -> raises", type(e).__name__ + ":", e)
    print("   state after failed call: direct is", type(uc.direct).__name__, "lengths", uc.lengths)
    bad = True
sys.exit(1 if bad else 0)
