"""C12: as_rhombohedral / as_hexagonal (default transformation matrices) turn a
right-handed cell into a left-handed one, so volume() != det(lattice)."""
import sys
import numpy as np
from chmpy.crystal import UnitCell

bad = False
h = UnitCell.hexagonal(5.0, 12.0)
print("hexagonal input:  volume", h.volume(), " det(lattice)", np.linalg.det(h.lattice))
r = h.as_rhombohedral()
print("as_rhombohedral:  volume", r.volume(), " det(lattice)", np.linalg.det(r.lattice))
if not np.isclose(r.volume(), np.linalg.det(r.lattice), rtol=1e-9):
    bad = True
r0 = UnitCell.rhombohedral(5.0, 70.0, unit="degrees")
print("rhombohedral in:  volume", r0.volume(), " det(lattice)", np.linalg.det(r0.lattice))
hh = r0.as_hexagonal()
print("as_hexagonal:     volume", hh.volume(), " det(lattice)", np.linalg.det(hh.lattice))
if not np.isclose(hh.volume(), np.linalg.det(hh.lattice), rtol=1e-9):
    bad = True
# same for any lattice given directly with left-handed vectors
lh = UnitCell(np.array([[3.0, 0, 0], [1.0, 4.0, 0], [1.0, 1.0, -5.0]]))
print("left-handed vecs: volume", lh.volume(), " det(lattice)", np.linalg.det(lh.lattice))
if bad:
    print("VIOLATION: volume() does not equal the determinant of the lattice "
          "(default T matrices have det -1/3 and -3: handedness is flipped)")
    sys.exit(1)
sys.exit(0)
