"""C12: a cell with alpha == gamma != 90 deg (and a, b, c different) is labelled
monoclinic and its reported unique parameters drop alpha and gamma, so the
reported parameters no longer describe the lattice vectors."""
import sys
import numpy as np
from chmpy.crystal import UnitCell

uc = UnitCell.from_lengths_and_angles([3.0, 4.0, 5.0], [80.0, 100.0, 80.0], unit="degrees")
print("cell_type:", uc.cell_type, " unique_parameters:", uc.unique_parameters, " repr:", repr(uc))
rebuilt = UnitCell.from_unique_parameters(uc.unique_parameters, cell_type=uc.cell_type)
d = np.asarray(uc.direct, float)
def ang(u, v):
    return np.degrees(np.arccos(np.dot(u, v) / np.linalg.norm(u) / np.linalg.norm(v)))
true = [ang(d[1], d[2]), ang(d[0], d[2]), ang(d[0], d[1])]
print("angles of the lattice vectors:", true)
print("angles of cell rebuilt from reported (cell_type, unique_parameters):", np.degrees(rebuilt.angles))
print("volume", uc.volume(), "vs rebuilt", rebuilt.volume())
if uc.cell_type == "monoclinic" or not np.allclose(np.degrees(rebuilt.angles), true, atol=1e-8):
    print("VIOLATION: triclinic cell reported as monoclinic (a, b, c, beta); alpha = gamma = 80 deg lost")
    sys.exit(1)
sys.exit(0)
