"""C12: for a cell built from lattice vectors, volume() (and a*, b*, c*) is recomputed
from arccos'd angles via sqrt(1 - ca^2 - cb^2 - cg^2 + 2 ca cb cg), which cancels
catastrophically for strongly oblique (non-reduced but non-degenerate) cells."""
import sys
import numpy as np
from chmpy.crystal import UnitCell

bad = False
for k in (100.0, 300.0, 1000.0):
    # a non-reduced basis of the orthorhombic lattice (k, 1, 1); det = k exactly
    v = np.array([[k, 0.0, 0.0], [k, 1.0, 0.0], [k, 0.0, 1.0]])
    uc = UnitCell(v)
    det = np.linalg.det(v)
    astar_true = np.linalg.norm(np.cross(v[1], v[2]) / det)
    rel_v = uc.volume() / det - 1
    rel_a = uc.a_star / astar_true - 1
    print(f"k={k:6.0f}  det={det:.12g}  volume()={uc.volume():.12g}  rel.err={rel_v:.2e}   "
          f"a*={uc.a_star:.12g} true {astar_true:.12g} rel.err={rel_a:.2e}")
    if abs(rel_v) > 1e-9 or abs(rel_a) > 1e-9:
        bad = True
if bad:
    print("VIOLATION: volume()/reciprocal lengths deviate from det(lattice)/reciprocal vectors far beyond rounding")
    sys.exit(1)
sys.exit(0)
