"""C12 (cell specified through a POSCAR): a negative VASP scale factor means
'total cell volume', but it is applied as a plain multiplier."""
import sys
import numpy as np
from chmpy.crystal import Crystal

poscar = """cubic cell with volume 125
-125.0
1.0 0.0 0.0
0.0 1.0 0.0
0.0 0.0 1.0
Na
1
Direct
0.1 0.2 0.3
"""
c = Crystal.from_vasp_string(poscar)
uc = c.unit_cell
print("lattice:\n", uc.direct)
print("lengths", uc.lengths, " volume()", uc.volume(), " det(lattice)", np.linalg.det(uc.direct))
ok = np.isclose(np.linalg.det(uc.direct), 125.0) and np.isclose(uc.volume(), 125.0) and np.allclose(uc.lengths, 5.0)
if not ok:
    print("VIOLATION: expected a right-handed 5 x 5 x 5 cell of volume 125")
    sys.exit(1)
sys.exit(0)
