"""C12: from_unique_parameters silently drops its keyword arguments (unit=...),
so the same parameters give a different cell than the direct constructor."""
import sys
import numpy as np
from chmpy.crystal import UnitCell

params = (3.0, 4.0, 5.0, 70.0, 80.0, 100.0)
ref = UnitCell.triclinic(*params, unit="degrees")
uc = UnitCell.from_unique_parameters(params, cell_type="triclinic", unit="degrees")

bad = False
# independent expectation: angles between the lattice vectors are 70, 80, 100 degrees
d = np.asarray(uc.direct, dtype=float)
def ang(u, v):
    return np.degrees(np.arccos(np.dot(u, v) / np.linalg.norm(u) / np.linalg.norm(v)))
got = np.array([ang(d[1], d[2]), ang(d[0], d[2]), ang(d[0], d[1])])
print("angles between lattice vectors (deg):", got, "expected", params[3:])
if not np.allclose(got, params[3:], atol=1e-8, equal_nan=False):
    bad = True
print("reported angles (rad):", uc.angles, " expected", np.radians(params[3:]))
if not np.allclose(np.asarray(uc.angles, float), np.radians(params[3:]), atol=1e-10):
    bad = True
print("volume:", uc.volume(), " reference constructor:", ref.volume())
if not np.isclose(uc.volume(), ref.volume(), rtol=1e-10):
    bad = True

# same thing for the monoclinic / rhombohedral routes
m = UnitCell.from_unique_parameters((3.0, 4.0, 5.0, 105.0), "monoclinic", unit="degrees")
print("monoclinic beta reported (rad):", m.beta, "expected", np.radians(105.0), " b* =", m.b_star)
if not np.isclose(m.beta, np.radians(105.0)) or m.b_star < 0:
    bad = True
if bad:
    print("VIOLATION: from_unique_parameters(..., unit='degrees') ignores unit")
    sys.exit(1)
sys.exit(0)
