"""C12: the reported degree-form unique parameters of a monoclinic cell omit c."""
import sys
import numpy as np
from chmpy.crystal import UnitCell

uc = UnitCell.monoclinic(3.0, 4.0, 5.0, 100.0, unit="degrees")
print("unique_parameters     :", uc.unique_parameters)
print("unique_parameters_deg :", uc.unique_parameters_deg)
expected = (3.0, 4.0, 5.0, 100.0)
ok = len(uc.unique_parameters_deg) == 4 and np.allclose(uc.unique_parameters_deg, expected)
if ok:
    try:
        r = UnitCell.monoclinic(*uc.unique_parameters_deg, unit="degrees")
        ok = np.allclose(r.lengths, uc.lengths) and np.allclose(r.angles, uc.angles)
    except Exception as e:
        ok = False
if not ok:
    print("VIOLATION: expected (a, b, c, beta_deg) =", expected)
    sys.exit(1)
sys.exit(0)
